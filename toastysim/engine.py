"""Batch engine: seeded search over choice sequences, determinism self-test,
minimisation, replay files, known findings, evidence.

A property module (toastysim.props.cXX) provides

    PROP, LEVEL, RULE, COMPONENTS, ASSUMPTIONS, BUDGET = {"quick": (runs, max_s), "thorough": (...)}
    REQUIRED_PROBES = {"quick": [...], "thorough": [...]}
    run_one(ch: Choices, env: RunEnv) -> dict   # see below

run_one's result: {"violation": None | {"kind", "sig", "detail"}, "digest",
"nontrivial", "steps", "vtime", "probes", "faults", "config", "trace"}.
"""

import concurrent.futures as cf
import faulthandler
import hashlib
import importlib
import io
import json
import multiprocessing
import os
import random
import shutil
import subprocess
import sys
import tempfile
import time
import traceback

from .kernel import Choices

VERIF = os.path.dirname(os.path.dirname(os.path.abspath(__file__)))
# mutant / seeded-change runs write their evidence and replays elsewhere (tools/mutants.py)
OUT = os.environ.get("VERIF_OUT") or VERIF
ENGINE_VERSION = 1


def scratch_root():
    root = os.environ.get("TOASTYSIM_SCRATCH")
    if root and os.path.isdir(root):
        return root
    base = "/dev/shm" if os.path.isdir("/dev/shm") and os.access("/dev/shm", os.W_OK) else tempfile.gettempdir()
    return base


class RunEnv(object):
    """Per-process environment handed to run_one: a private scratch directory
    (emptied before every run)."""

    def __init__(self):
        self.base = tempfile.mkdtemp(prefix="toastysim-%d-" % os.getpid(), dir=scratch_root())
        self.n = 0

    def fresh_dir(self):
        d = os.path.join(self.base, "r")
        if os.path.isdir(d):
            shutil.rmtree(d, ignore_errors=True)
        os.makedirs(d)
        return d

    def close(self):
        shutil.rmtree(self.base, ignore_errors=True)


def load_prop(prop):
    return importlib.import_module("toastysim.props.%s" % prop.lower())


_env = None


def _get_env():
    global _env
    if _env is None or not os.path.isdir(_env.base) or _env.base.find("-%d-" % os.getpid()) < 0:
        _env = RunEnv()
        import atexit
        atexit.register(_env.close)
    return _env


def _quiet():
    """Silence toasty's informational prints inside batch workers."""
    sys.stdout = io.StringIO()


def setup_process():
    from . import mpsim, seams
    mpsim.install()
    seams.install()
    import warnings
    warnings.filterwarnings("ignore")
    try:
        import tqdm
        tqdm.tqdm.monitor_interval = 0      # no monitor thread: it would be a real thread outside the scheduler
    except Exception:
        pass
    try:
        from toasty import par_util
        par_util.SHOW_INFORMATIONAL_MESSAGES = False
    except Exception:
        pass


def seed_key(seed, prop, i):
    return "%d:%s:%d" % (seed, prop, i)


def run_seeded(mod, seed, i, keep_kinds=False):
    rng = random.Random(seed_key(seed, mod.PROP, i))
    # a property module may stratify its first run indices: a fixed choice prefix (then the PRNG takes over)
    prefix = mod.systematic(i) if hasattr(mod, "systematic") else None
    ch = Choices(replay=prefix, rng=rng, keep_kinds=keep_kinds)
    res = _run(mod, ch)
    res["run_index"] = i
    return res


def run_replay(mod, choices, keep_kinds=False):
    ch = Choices(replay=choices, keep_kinds=keep_kinds)
    return _run(mod, ch)


def _run(mod, ch):
    env = _get_env()
    out_save, err_save = sys.stdout, sys.stderr
    sys.stdout = io.StringIO()
    sys.stderr = io.StringIO()      # progress bars and worker chatter; tracebacks of simulated workers are captured by the simulator
    from . import kernel as _kernel
    wt0 = _kernel.WALL_TIMEOUTS[0]
    try:
        try:
            res = mod.run_one(ch, env)
        except BaseException as e:  # harness failure, never a violation
            if isinstance(e, KeyboardInterrupt):
                raise
            res = {"harness_error": "%s: %s\n%s" % (type(e).__name__, e, traceback.format_exc())}
    finally:
        sys.stdout, sys.stderr = out_save, err_save
        os.environ.pop("JPY_PARENT_PID", None)      # set by runs that draw terminal-like progress output
        os.environ.pop("SLURM_NPROCS", None)        # set by runs that hand the worker count over through the environment
        try:
            from .props import common as _common
            _common.PROGRESS.clear()
            _common.VIA_ENV[0] = None
        except Exception:
            pass
    if _kernel.WALL_TIMEOUTS[0] != wt0:
        # the run hit the real-time limit: whatever it reports says something about the load of this machine only
        res = {"wall_timeout": True, "config": res.get("config"), "leaked": 0}
    res["choices"] = list(ch.rec)
    if ch.kinds is not None:
        res["kinds"] = list(ch.kinds)
    res.setdefault("violation", None)
    res.setdefault("digest", "")
    return res


# -- batch worker ------------------------------------------------------------

def _batch(args):
    prop, seed, indices, selftest_every, deadline = args
    faulthandler.enable()
    setup_process()
    mod = load_prop(prop)
    out = {
        "n": 0, "digests": set(), "steps": 0, "vtime": 0.0, "probes": {}, "faults": {},
        "violations": [], "harness_errors": [], "samples": [], "nontrivial": 0,
        "selftest_pairs": 0, "selftest_digests": {}, "selftest_mismatch": [], "leaked": 0, "extra": {}, "wall_timeouts": [],
    }
    for i in indices:
        if deadline is not None and time.time() > deadline:
            break
        res = run_seeded(mod, seed, i)
        out["n"] += 1
        if res.get("wall_timeout"):
            out["wall_timeouts"].append({"run_index": i, "choices": res["choices"]})
            continue
        if "harness_error" in res:
            out["harness_errors"].append({"run_index": i, "error": res["harness_error"], "choices": res["choices"]})
            continue
        out["steps"] += res.get("steps", 0)
        out["step_frac"] = max(out.get("step_frac", 0.0), res.get("step_frac", 0.0))
        out["idle_frac"] = max(out.get("idle_frac", 0.0), res.get("idle_frac", 0.0))
        out["vtime"] += res.get("vtime", 0.0)
        out["leaked"] += res.get("leaked", 0)
        for k, v in res.get("probes", {}).items():
            out["probes"][k] = out["probes"].get(k, 0) + v
        for k, v in res.get("faults", {}).items():
            out["faults"][k] = out["faults"].get(k, 0) + v
        for k, v in res.get("extra", {}).items():
            out["extra"][k] = out["extra"].get(k, 0) + v
        if res.get("nontrivial"):
            out["nontrivial"] += 1
            out["digests"].add(res["digest"][:16])
        if len(out["samples"]) < 2 and res.get("nontrivial"):
            out["samples"].append({"run_index": i, "config": res.get("config"), "faults": res.get("faults"),
                                   "schedule_head": res.get("trace", [])[:40]})
        if res["violation"] is not None:
            out["violations"].append({"run_index": i, "violation": res["violation"], "choices": res["choices"],
                                      "digest": res["digest"], "config": res.get("config")})
        if selftest_every and i % selftest_every == 0:
            res2 = run_replay(mod, res["choices"])
            out["selftest_pairs"] += 1
            if res2.get("digest") != res["digest"] or (res2["violation"] is None) != (res["violation"] is None):
                # adjudicated by the parent: two pristine executions decide whether this is nondeterminism of the
                # simulation or dependence of toasty on process-global state left by earlier runs
                out["selftest_mismatch"].append(i)
            out["selftest_digests"][i] = res["digest"]
    out["digests"] = list(out["digests"])
    return out


def _merge(agg, r):
    agg["n"] += r["n"]
    agg["digests"].update(r["digests"])
    agg["steps"] += r["steps"]
    agg["step_frac"] = max(agg.get("step_frac", 0.0), r.get("step_frac", 0.0))
    agg["idle_frac"] = max(agg.get("idle_frac", 0.0), r.get("idle_frac", 0.0))
    agg["vtime"] += r["vtime"]
    agg["nontrivial"] += r["nontrivial"]
    agg["selftest_pairs"] += r["selftest_pairs"]
    agg["selftest_digests"].update({int(k): v for k, v in r["selftest_digests"].items()})
    agg["selftest_mismatch"].extend(r["selftest_mismatch"])
    agg["leaked"] += r["leaked"]
    for k in ("probes", "faults", "extra"):
        for kk, v in r[k].items():
            agg[k][kk] = agg[k].get(kk, 0) + v
    agg["violations"].extend(r["violations"])
    agg["wall_timeouts"].extend(r.get("wall_timeouts", []))
    agg["harness_errors"].extend(r["harness_errors"])
    if len(agg["samples"]) < 3:
        agg["samples"].extend(r["samples"][:3 - len(agg["samples"])])


def isolated(fn, sink_path=None, timeout=900):
    """Run fn() in a forked child.  Returns ("ok", json-able result) or ("crash", signal number) or ("timeout", None).
    With sink_path, every choice the child draws is appended to that file as it is drawn."""
    import signal as _signal
    out_path = tempfile.mktemp(prefix="isolated-", suffix=".json", dir=scratch_root())
    sys.stdout.flush()
    sys.stderr.flush()
    pid = os.fork()
    if pid == 0:
        code = 3
        try:
            _child_signals()
            faulthandler.disable()
            if sink_path is not None:
                from . import kernel as _k
                _k.CHOICE_SINK[0] = os.open(sink_path, os.O_WRONLY | os.O_CREAT | os.O_TRUNC, 0o600)
            r = fn()
            with open(out_path, "w") as f:
                json.dump(r, f, default=str)
            code = 0
        except BaseException:
            traceback.print_exc()
        finally:
            os._exit(code)
    t_end = time.time() + timeout
    while True:
        wpid, status = os.waitpid(pid, os.WNOHANG)
        if wpid == pid:
            break
        if time.time() > t_end:
            try:
                os.kill(pid, _signal.SIGKILL)
            except OSError:
                pass
            os.waitpid(pid, 0)
            return "timeout", None
        time.sleep(0.02)
    if os.WIFSIGNALED(status):
        return "crash", os.WTERMSIG(status)
    if os.WEXITSTATUS(status) != 0 or not os.path.exists(out_path):
        return "error", os.WEXITSTATUS(status)
    try:
        with open(out_path) as f:
            return "ok", json.load(f)
    finally:
        try:
            os.remove(out_path)
        except OSError:
            pass


def scan(prop, seed, indices):
    """internal (--scan): every run index in its own forked child; prints one line per run: RESULT <i> <json> |
    CRASH <i> <signal> <json list of the choices drawn before the process died>."""
    setup_process()
    for i in indices:
        sink = tempfile.mktemp(prefix="choices-%d-" % i, dir=scratch_root())
        kind, val = isolated(lambda: _batch((prop, seed, [i], 0, None)), sink_path=sink)
        if kind == "ok":
            print("RESULT %d %s" % (i, json.dumps(val, default=str)))
        else:
            choices = []
            try:
                with open(sink) as f:
                    choices = [int(x) for x in f.read().split()]
            except (OSError, ValueError):
                pass
            print("CRASH %d %s %s %s" % (i, kind, val, json.dumps(choices)))
        sys.stdout.flush()
        try:
            os.remove(sink)
        except OSError:
            pass
    return 0


def scan_parallel(prop, seed, indices, jobs, limit_s):
    """Run `scan` over the indices in `jobs` fresh interpreters; returns (results, crashes)."""
    env = dict(os.environ)
    env["PYTHONPATH"] = VERIF + os.pathsep + env.get("PYTHONPATH", "")
    env["VERIF_SEED"] = str(seed)
    jobs = max(1, min(jobs, len(indices)))
    procs = []
    for j in range(jobs):
        part = indices[j::jobs]
        if part:
            procs.append(subprocess.Popen([sys.executable, "-m", "toastysim.cli", prop, "--tier", os.environ.get("TOASTYSIM_TIER", "quick"), "--scan", ",".join(str(i) for i in part)],
                                          env=env, stdout=subprocess.PIPE, stderr=subprocess.DEVNULL, text=True, cwd=VERIF))
    results, crashes = [], []
    t_end = time.time() + limit_s
    for p in procs:
        try:
            out, _ = p.communicate(timeout=max(5.0, t_end - time.time()))
        except subprocess.TimeoutExpired:
            p.kill()
            out, _ = p.communicate()
        for line in (out or "").splitlines():
            if line.startswith("RESULT "):
                _, i, js = line.split(" ", 2)
                results.append(json.loads(js))
            elif line.startswith("CRASH "):
                _, i, kind, val, js = line.split(" ", 4)
                crashes.append({"run_index": int(i), "how": kind, "signal": val, "choices": json.loads(js)})
    return results, crashes


def _child_signals():
    """Forked children must die on SIGTERM (the top-level process turns it into SystemExit to clean up; a pool worker
    that did the same would survive the executor's terminate())."""
    import signal as _signal
    try:
        _signal.signal(_signal.SIGTERM, _signal.SIG_DFL)
    except (ValueError, OSError):
        pass


def _pool(jobs):
    ctx = multiprocessing.get_context("fork")
    return cf.ProcessPoolExecutor(max_workers=jobs, mp_context=ctx, initializer=_child_signals)


def fresh_digests(prop, seed, indices, hashseed="12345"):
    """Digests of the given seeded runs computed in a fresh interpreter with a
    different PYTHONHASHSEED, every run in its own forked child (pristine process state)."""
    env = dict(os.environ)
    env["PYTHONHASHSEED"] = hashseed
    env["PYTHONPATH"] = VERIF + os.pathsep + env.get("PYTHONPATH", "")
    cmd = [sys.executable, "-m", "toastysim.cli", prop, "--isolate", "--digests", ",".join(str(i) for i in indices)]
    env["VERIF_SEED"] = str(seed)
    p = subprocess.run(cmd, env=env, capture_output=True, text=True, timeout=2400, cwd=VERIF)
    if p.returncode != 0:
        raise RuntimeError("fresh-interpreter digest run failed: %s\n%s" % (p.returncode, p.stderr[-2000:]))
    out = {}
    xproc = {}
    for line in p.stdout.splitlines():
        if line.startswith("DIGEST "):
            _, i, d = line.split()
            out[int(i)] = d
        elif line.startswith("XPROC "):
            _, i, js = line.split(" ", 2)
            xproc[int(i)] = js
    fresh_digests.last_xproc = xproc
    return out


def xproc_of_replay(prop, path, hashseed):
    env = dict(os.environ)
    env["PYTHONHASHSEED"] = hashseed
    env["PYTHONPATH"] = VERIF + os.pathsep + env.get("PYTHONPATH", "")
    p = subprocess.run([sys.executable, "-m", "toastysim.cli", prop, "--xproc-replay", path],
                       env=env, capture_output=True, text=True, timeout=2400, cwd=VERIF)
    for line in p.stdout.splitlines():
        if line.startswith("XPROC 0 "):
            return line[len("XPROC 0 "):]
    return None


# -- minimisation ------------------------------------------------------------

def minimise(mod, choices, sig, max_execs=300, max_s=90.0):
    t0 = time.time()
    execs = [0]

    def bad(c):
        if execs[0] >= max_execs or time.time() - t0 > max_s:
            return None
        execs[0] += 1
        r = run_replay(mod, c)
        v = r.get("violation")
        if v is not None and v.get("sig") == sig:
            return r
        return None

    best = list(choices)
    r = bad(best)
    if r is None:
        return best, None, execs[0]
    best_r = r
    # cut the tail: everything after the list is zeros = run to completion with no more faults
    lo, hi = 0, len(best)
    while lo < hi:
        mid = (lo + hi) // 2
        r = bad(best[:mid])
        if r is not None:
            hi = mid
            best_r = r
        else:
            lo = mid + 1
    if hi < len(best):
        r = bad(best[:hi])
        if r is not None:
            best, best_r = best[:hi], r
    # block passes: delete / zero
    size = max(1, len(best) // 2)
    while size >= 1:
        i = 0
        progressed = False
        while i < len(best):
            cand = best[:i] + best[i + size:]
            r = bad(cand) if len(cand) < len(best) else None
            if r is not None:
                best, best_r = cand, r
                progressed = True
                continue
            if any(best[i:i + size]):
                cand = best[:i] + [0] * len(best[i:i + size]) + best[i + size:]
                r = bad(cand)
                if r is not None:
                    best, best_r = cand, r
                    progressed = True
            i += size
        if execs[0] >= max_execs or time.time() - t0 > max_s:
            break
        if size == 1 and not progressed:
            break
        size = size // 2 if size > 1 else (1 if progressed else 0)
    # element lowering
    for i in range(len(best)):
        v = best[i]
        for nv in (0, v // 2, v - 1):
            if 0 <= nv < v:
                cand = best[:i] + [nv] + best[i + 1:]
                r = bad(cand)
                if r is not None:
                    best, best_r = cand, r
                    break
    while best and best[-1] == 0:
        best.pop()
    r = run_replay(mod, best, keep_kinds=True)
    if r.get("violation") is not None and r["violation"].get("sig") == sig:
        best_r = r
    return best, best_r, execs[0]


# -- known findings ------------------------------------------------------------

def load_known(prop):
    path = os.path.join(VERIF, "known_findings.txt")
    findings = []
    if os.path.exists(path):
        for line in open(path):
            line = line.strip()
            if line.startswith("finding:"):
                parts = line[len("finding:"):].split()
                d = {}
                rest = []
                for p in parts:
                    if "=" in p and not rest and p.split("=", 1)[0] in ("property", "signature"):
                        k, v = p.split("=", 1)
                        d[k] = v
                    else:
                        rest.append(p)
                d["text"] = " ".join(rest)
                if d.get("property") == prop:
                    findings.append(d)
    return findings


# -- replay files ----------------------------------------------------------------

def write_replay(prop, seed, run_index, choices, orig_len, res, n):
    os.makedirs(os.path.join(OUT, "replays"), exist_ok=True)
    path = os.path.join(OUT, "replays", "%s-%d-%d.json" % (prop, seed, n))
    kinds = res.get("kinds") or []
    doc = {
        "property": prop,
        "engine_version": ENGINE_VERSION,
        "verif_seed": seed,
        "tier": os.environ.get("TOASTYSIM_TIER", "quick"),
        "run_index": run_index,
        "choices": choices,
        "original_choices_len": orig_len,
        "violation": res.get("violation"),
        "trace_digest": res.get("digest"),
        "decoded": {
            "config": res.get("config"),
            "faults": res.get("faults"),
            "choice_kinds": kinds[:200],
            "schedule": res.get("trace", [])[:400],
        },
    }
    with open(path, "w") as f:
        json.dump(doc, f, indent=1, default=str)
    return path


def replay_file(prop, path):
    """Re-execute a replay file in this (fresh) interpreter.  Exit status:
    1 + VIOLATION line if it reproduces, 2 if it does not (harness error)."""
    setup_process()
    doc = json.load(open(path))
    os.environ["TOASTYSIM_TIER"] = doc.get("tier", "quick")
    mod = load_prop(prop)
    if doc.get("xproc_check"):
        # the violation is a difference BETWEEN interpreters: execute the recorded run under two hash seeds
        xa = xproc_of_replay(prop, path, "12345")
        xb = xproc_of_replay(prop, path, "999")
        if xa is not None and xb is not None and xa != xb:
            print("replayed: kind=%s sig=%s (two interpreters disagree: identical to recording)" % (doc["violation"]["kind"], doc["violation"]["sig"]))
            print("detail: interpreter A: %s | interpreter B: %s" % (xa[:600], xb[:600]))
            print("VIOLATION property=%s replay=%s" % (prop, path))
            return 1
        print("replay of %s: the two interpreters agree (recorded: %s)" % (path, doc["violation"]["sig"]))
        return 0
    if doc.get("crash"):
        # the recorded run killed the interpreter: execute it in a forked child
        def child():
            r = run_replay(mod, doc["choices"])
            return {"violation": r.get("violation"), "harness_error": r.get("harness_error")}
        kind, val = isolated(child)
        want = doc.get("violation") or {}
        if kind == "crash":
            dig = "crash-%s" % val
            print("replayed: kind=process-crash sig=%s digest=%s (%s)" % (want.get("sig"), dig, "identical to recording" if dig == doc.get("trace_digest") else "DIFFERS from recording"))
            print("detail: %s" % want.get("detail"))
            print("VIOLATION property=%s replay=%s" % (prop, path))
            return 1
        print("replay of %s: the process survived (%s; recorded: %s)" % (path, kind, want.get("sig")))
        return 0
    res = run_replay(mod, doc["choices"], keep_kinds=True)
    if "harness_error" in res:
        print("HARNESS-ERROR replay raised: %s" % res["harness_error"])
        return 2
    v = res.get("violation")
    want = doc.get("violation") or {}
    if v is None:
        print("replay of %s: no violation (recorded: %s)" % (path, want.get("sig")))
        return 0
    same = v.get("sig") == want.get("sig") and res.get("digest") == doc.get("trace_digest")
    print("replayed: kind=%s sig=%s digest=%s (%s)" % (v.get("kind"), v.get("sig"), res.get("digest"),
                                                      "identical to recording" if same else "DIFFERS from recording"))
    print("detail: %s" % v.get("detail"))
    print("VIOLATION property=%s replay=%s" % (prop, path))
    return 1 if same or not want else 2


def _fresh_replay(prop, path, hashseed):
    env = dict(os.environ)
    env["PYTHONHASHSEED"] = hashseed
    env["PYTHONPATH"] = VERIF + os.pathsep + env.get("PYTHONPATH", "")
    p = subprocess.run([sys.executable, "-m", "toastysim.cli", prop, "--replay", path],
                       env=env, capture_output=True, text=True, timeout=2400, cwd=VERIF)
    sig = dig = None
    for line in p.stdout.splitlines():
        if line.startswith("replayed: "):
            for tok in line.split():
                if tok.startswith("sig="):
                    sig = tok[4:]
                elif tok.startswith("digest="):
                    dig = tok[7:]
    return p.returncode, sig, dig, p.stdout[-1500:] + p.stderr[-1500:]


def verify_replay_fresh(prop, path, want_sig):
    """The replay file must reproduce the same violation with the same trace digest in two fresh interpreters
    (different hash seeds).  The digest recorded in the file is the one of the pristine replay."""
    rc1, sig1, dig1, txt1 = _fresh_replay(prop, path, "777")
    if sig1 != want_sig or dig1 is None:
        return False, txt1
    doc = json.load(open(path))
    doc["trace_digest"] = dig1
    with open(path, "w") as f:
        json.dump(doc, f, indent=1, default=str)
    rc2, sig2, dig2, txt2 = _fresh_replay(prop, path, "4242")
    return (rc2 == 1 and sig2 == want_sig and dig2 == dig1 and "identical to recording" in txt2), txt2


# -- the check -------------------------------------------------------------------

def check(prop, tier="quick", seed=0, runs=None, jobs=None, max_s=None, out=sys.stdout):
    t0 = time.time()
    os.environ["TOASTYSIM_TIER"] = tier     # some workloads are larger in the thorough tier; recorded in replay files
    mod = load_prop(prop)
    b_runs, b_s = mod.BUDGET[tier]
    if runs is None:
        runs = b_runs
    if max_s is None:
        max_s = b_s
    if jobs is None:
        jobs = min(16, os.cpu_count() or 4)
    print("toastysim check %s tier=%s VERIF_SEED=%d runs<=%d budget=%ds jobs=%d" % (prop, tier, seed, runs, max_s, jobs), file=out)
    out.flush()
    deadline = t0 + max_s
    chunk = max(1, min(getattr(mod, "CHUNK", 50), (runs + jobs * 4 - 1) // (jobs * 4)))
    selftest_every = max(1, getattr(mod, "SELFTEST_EVERY", 20))
    tasks = []
    for s in range(0, runs, chunk):
        tasks.append((prop, seed, list(range(s, min(runs, s + chunk))), selftest_every, deadline))

    agg = {"n": 0, "digests": set(), "steps": 0, "vtime": 0.0, "probes": {}, "faults": {}, "violations": [],
           "harness_errors": [], "samples": [], "nontrivial": 0, "selftest_pairs": 0, "selftest_digests": {},
           "selftest_mismatch": [], "leaked": 0, "extra": {}, "wall_timeouts": []}
    hard_timeout = max_s + 1200
    unfinished = []
    ex = _pool(jobs)
    try:
        futs = {ex.submit(_batch, t): t for t in tasks}
        try:
            for f in cf.as_completed(list(futs), timeout=hard_timeout):
                try:
                    r = f.result()
                except cf.process.BrokenProcessPool:
                    # a worker process died (a signal inside native code, e.g. SIGBUS on a truncated memory-mapped tile):
                    # the batches that did not complete are executed again below, one forked child per run
                    unfinished.append(futs[f])
                    continue
                _merge(agg, r)
        except cf.TimeoutError:
            agg["harness_errors"].append({"run_index": -1, "error": "batch wall-clock timeout (%ds)" % hard_timeout})
    finally:
        procs = list((getattr(ex, "_processes", None) or {}).values())
        ex.shutdown(wait=False, cancel_futures=True)
        for p in procs:
            try:
                p.kill()
            except Exception:
                pass

    crashes = []
    if unfinished:
        idx = sorted(i for t in unfinished for i in t[2])
        cap = 40 * jobs
        results, crashes = scan_parallel(prop, seed, idx[:cap], jobs, max(120.0, deadline - time.time()) + 600.0)
        for r in results:
            r["digests"] = set(r["digests"])
            _merge(agg, r)

    # determinism self-test: the same seeded runs executed twice in pristine processes (fresh interpreters with two
    # other PYTHONHASHSEEDs, one forked child per run) must give the same trace digest.  A digest that differs only
    # from the in-batch execution means toasty depends on process-global state left by earlier runs in the batch
    # process - reported in the evidence, not an error of the simulation.
    fresh_pairs = 0
    history_dependent = 0
    xproc_violations = []
    if agg["selftest_digests"] and not agg["harness_errors"]:
        mism = sorted(set(agg["selftest_mismatch"]))
        idx = sorted(set(sorted(agg["selftest_digests"])[: getattr(mod, "FRESH_SELFTEST", 8)]) | set(mism[:12]))
        try:
            fa = fresh_digests(prop, seed, idx, hashseed="12345")
            xa = dict(getattr(fresh_digests, "last_xproc", {}))
            fb = fresh_digests(prop, seed, idx, hashseed="999")
            xb = dict(getattr(fresh_digests, "last_xproc", {}))
            for i in idx:
                fresh_pairs += 1
                if fa.get(i) != fb.get(i):
                    xv = getattr(mod, "XPROC_VIOLATION", None)
                    if xv is not None and xa.get(i) is not None and xa.get(i) != xb.get(i):
                        # facts the property needs to be the same in every process differ between two interpreters
                        xproc_violations.append((i, xa.get(i), xb.get(i)))
                        continue
                    agg["harness_errors"].append({"run_index": i, "error": "nondeterminism: two pristine executions (PYTHONHASHSEED 12345 / 999) gave digests %s != %s" % (fa.get(i), fb.get(i))})
                elif fa.get(i) != agg["selftest_digests"][i] or i in mism:
                    history_dependent += 1
            if len(mism) > 12:
                history_dependent += len(mism) - 12
        except Exception as e:
            agg["harness_errors"].append({"run_index": -1, "error": "fresh-interpreter self-test failed: %s" % e})

    # runs that hit the real-time limit inside a loaded batch are executed again, alone, with a generous limit
    setup_process()
    wall_rerun_ok = 0
    for w in agg["wall_timeouts"][:6]:
        os.environ["TOASTYSIM_WALL_TIMEOUT"] = "1800"
        try:
            r = run_replay(mod, w["choices"])
        finally:
            os.environ.pop("TOASTYSIM_WALL_TIMEOUT", None)
        if r.get("wall_timeout"):
            agg["harness_errors"].append({"run_index": w["run_index"], "error": "the run does not finish within 1800 real seconds even when executed alone", "choices": w["choices"]})
        elif "harness_error" in r:
            agg["harness_errors"].append({"run_index": w["run_index"], "error": r["harness_error"], "choices": w["choices"]})
        else:
            wall_rerun_ok += 1
            if r["violation"] is not None:
                agg["violations"].append({"run_index": w["run_index"], "violation": r["violation"], "choices": r["choices"],
                                          "digest": r["digest"], "config": r.get("config")})

    # violations -> minimise, replay file, known findings
    known = load_known(prop)
    by_sig = {}
    for v in sorted(agg["violations"], key=lambda v: (len(v["choices"]), v["run_index"])):
        by_sig.setdefault(v["violation"]["sig"], []).append(v)
    new_violations = []
    known_hit = {}
    nrep = 0
    for sig, vs in sorted(by_sig.items()):
        kf = None
        for k in known:
            if k.get("signature") and k["signature"] == sig:
                kf = k
        if kf is not None:
            known_hit[sig] = (kf, len(vs), vs[0])
            continue
        # A violation is reported only if its replay file reproduces it - same signature, same trace digest - in two
        # pristine processes.  Candidates are tried in turn (shortest choice list first): first the recorded choices
        # as they are (toasty may keep state between operations in one process, so the long-lived batch process is
        # not a reliable judge), then the minimised list; the minimised file is used when it reproduces as well.
        reported = False
        last_err = None
        for v in vs[:8]:
            path0 = write_replay(prop, seed, v["run_index"], v["choices"], len(v["choices"]),
                                 {"violation": v["violation"], "digest": v["digest"], "config": v.get("config")}, nrep)
            ok0, txt0 = verify_replay_fresh(prop, path0, sig)
            if not ok0:
                last_err = {"run_index": v["run_index"], "error": "violation %s seen in the batch does not reproduce in pristine processes:\n%s" % (sig, txt0[-600:]), "choices": v["choices"]}
                continue
            best, best_r, execs = minimise(mod, v["choices"], sig)
            if best_r is not None and len(best) < len(v["choices"]):
                path1 = path0[:-5] + "-min.json"
                os.replace(write_replay(prop, seed, v["run_index"], best, len(v["choices"]), best_r, nrep), path1)
                ok1, _txt1 = verify_replay_fresh(prop, path1, sig)
                if ok1:
                    os.replace(path1, path0)
                    new_violations.append((sig, len(vs), path0, best_r["violation"], execs, len(v["choices"]), len(best)))
                    reported = True
                else:
                    os.remove(path1)
            if not reported:
                viol2 = dict(v["violation"])
                viol2["detail"] = viol2.get("detail", "") + " [not minimised: the minimised schedule does not reproduce in a pristine process]"
                new_violations.append((sig, len(vs), path0, viol2, execs, len(v["choices"]), len(v["choices"])))
                reported = True
            nrep += 1
            break
        if not reported and last_err is not None:
            agg["harness_errors"].append(last_err)

    # runs that killed the interpreter
    for c in crashes:
        if c["how"] != "crash":
            agg["harness_errors"].append({"run_index": c["run_index"], "error": "isolated execution of the run ended with %s %s" % (c["how"], c["signal"]), "choices": c["choices"]})
    real = [c for c in crashes if c["how"] == "crash"]
    if real:
        sig = "%s:process-crash" % prop
        known_sig = [k for k in known if k.get("signature") == sig]
        if known_sig:
            known_hit[sig] = (known_sig[0], len(real), real[0])
        else:
            last = None
            for c in real[:3]:
                import signal as _signal
                try:
                    signame = _signal.Signals(int(c["signal"])).name
                except ValueError:
                    signame = "signal %s" % c["signal"]
                viol = {"kind": "process-crash", "sig": sig,
                        "detail": "run %d killed the Python interpreter with %s after %d choices (a crash inside native code while toasty was running under the simulator, e.g. a memory-mapped tile truncated by a concurrent writer) [not minimised]" % (c["run_index"], signame, len(c["choices"]))}
                path = write_replay(prop, seed, c["run_index"], c["choices"], len(c["choices"]), {"violation": viol, "digest": "crash-%s" % c["signal"], "config": None}, nrep)
                doc = json.load(open(path))
                doc["crash"] = True
                with open(path, "w") as f:
                    json.dump(doc, f, indent=1, default=str)
                ok, txt = verify_replay_fresh(prop, path, sig)
                if ok:
                    new_violations.append((sig, len(real), path, viol, 0, len(c["choices"]), len(c["choices"])))
                    nrep += 1
                    last = None
                    break
                last = {"run_index": c["run_index"], "error": "a run killed a worker process (%s) but the crash does not reproduce from its choices in pristine processes:\n%s" % (signame, txt[-500:]), "choices": c["choices"]}
            if last is not None:
                agg["harness_errors"].append(last)
    elif unfinished and not crashes:
        agg["harness_errors"].append({"run_index": -1, "error": "a worker process died but no run of its batches crashes when executed alone"})

    if xproc_violations:
        kind, text = mod.XPROC_VIOLATION
        i, a, b = xproc_violations[0]
        r = run_seeded(mod, seed, i)
        sig = "%s:%s" % (prop, kind)
        known_sig = [k for k in known if k.get("signature") == sig]
        if known_sig:
            known_hit[sig] = (known_sig[0], len(xproc_violations), {"run_index": i})
        else:
            viol = {"kind": kind, "sig": sig, "detail": "%s; interpreter with PYTHONHASHSEED=12345: %s | with 999: %s" % (text, a[:500], b[:500])}
            path = write_replay(prop, seed, i, r["choices"], len(r["choices"]), {"violation": viol, "digest": "", "config": r.get("config")}, nrep)
            doc = json.load(open(path))
            doc["xproc_check"] = True
            with open(path, "w") as f:
                json.dump(doc, f, indent=1, default=str)
            nrep += 1
            if xproc_of_replay(prop, path, "4242") != xproc_of_replay(prop, path, "31337"):
                new_violations.append((sig, len(xproc_violations), path, viol, 0, len(r["choices"]), len(r["choices"])))
            else:
                agg["harness_errors"].append({"run_index": i, "error": "interpreter-dependent facts did not reproduce from the replay file %s" % path})

    # required probes
    missing = []
    for p in mod.REQUIRED_PROBES.get(tier, []):
        if not (agg["probes"].get(p, 0) or agg["faults"].get(p, 0) or agg["extra"].get(p, 0)):
            missing.append(p)
    if missing and agg["n"] >= runs and not agg["violations"]:
        agg["harness_errors"].append({"run_index": -1, "error": "reach probes stuck at zero: %s" % ", ".join(missing)})
    if hasattr(mod, "coverage_guard") and agg["n"] >= min(runs, 100) and not agg["violations"]:
        # module-specific sanity of the workload mix (e.g. too many histories that were generated but not evaluated)
        for msg in mod.coverage_guard(agg["extra"], agg["probes"], agg["n"]) or []:
            agg["harness_errors"].append({"run_index": -1, "error": "workload guard: %s" % msg})
    if agg["leaked"]:
        agg["harness_errors"].append({"run_index": -1, "error": "%d simulated threads could not be torn down" % agg["leaked"]})
    if agg["n"] == 0:
        agg["harness_errors"].append({"run_index": -1, "error": "no runs executed"})

    wall = time.time() - t0
    ndist = len(agg["digests"])
    evidence = {
        "property_id": prop,
        "tier": tier,
        "seed": seed,
        "level": mod.LEVEL,
        "coverage": {
            "evaluations": agg["n"],
            "distinct_nontrivial": ndist,
            "rule": mod.RULE,
            "samples": agg["samples"][:3],
            "runs_requested": runs,
            "runs_per_hour": int(agg["n"] / wall * 3600) if wall > 0 else 0,
            "simulated_seconds": round(agg["vtime"], 3),
            "scheduler_steps": agg["steps"],
            "largest_fraction_of_the_step_cap_used_by_a_returning_run": round(agg.get("step_frac", 0.0), 3),
            "largest_fraction_of_the_no_progress_budget_used_by_a_returning_run": round(agg.get("idle_frac", 0.0), 3),
            "fault_counts_fired": agg["faults"],
            "probes": agg["probes"],
            "workload_mix": agg["extra"],
            "components": mod.COMPONENTS,
            "determinism_pairs_checked": {"in_process": agg["selftest_pairs"], "in_process_mismatches": len(set(agg["selftest_mismatch"])),
                                          "pristine_process_pairs_two_hashseeds": fresh_pairs,
                                          "runs_depending_on_earlier_runs_in_the_same_process": history_dependent},
            "known_findings_reproduced": sorted(known_hit),
            "harness_errors": len(agg["harness_errors"]),
            "runs_over_the_real_time_limit_in_the_batch": {"seen": len(agg["wall_timeouts"]), "executed_again_alone_and_judged": wall_rerun_ok},
            "exhaustive": False,
        },
        "assumptions": mod.ASSUMPTIONS,
        "wall_s": round(wall, 2),
        "violations": len(new_violations),
    }
    os.makedirs(os.path.join(OUT, "evidence"), exist_ok=True)
    with open(os.path.join(OUT, "evidence", "%s.json" % prop), "w") as f:
        json.dump(evidence, f, indent=1, default=str)

    print("runs=%d distinct_nontrivial=%d steps=%d simulated_s=%.0f wall=%.1fs (%.0f runs/h)" % (
        agg["n"], ndist, agg["steps"], agg["vtime"], wall, agg["n"] / wall * 3600 if wall else 0), file=out)
    print("faults fired: %s" % json.dumps(agg["faults"], sort_keys=True), file=out)
    print("probes: %s" % json.dumps(agg["probes"], sort_keys=True), file=out)
    print("determinism: %d in-process pairs (%d differing), %d pristine-process pairs under two other hash seeds, %d runs depend on process history" % (
        agg["selftest_pairs"], len(set(agg["selftest_mismatch"])), fresh_pairs, history_dependent), file=out)
    for sig, (kf, n, v) in sorted(known_hit.items()):
        print("KNOWN-FINDING: property=%s signature=%s %s (reproduced in %d runs, e.g. run_index=%d)" % (prop, sig, kf["text"], n, v["run_index"]), file=out)
    for he in agg["harness_errors"][:10]:
        print("HARNESS-ERROR run_index=%s: %s" % (he.get("run_index"), he["error"]), file=out)
    for sig, n, path, viol, execs, l0, l1 in new_violations:
        print("violation kind=%s sig=%s in %d runs; minimised %d -> %d choices in %d re-executions" % (viol["kind"], sig, n, l0, l1, execs), file=out)
        print("  detail: %s" % viol["detail"], file=out)
        print("VIOLATION property=%s replay=%s" % (prop, path), file=out)
    out.flush()
    if new_violations:
        return 1
    if agg["harness_errors"]:
        return 2
    print("OK property=%s held on %d simulated runs" % (prop, agg["n"]), file=out)
    return 0
