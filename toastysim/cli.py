"""Command line: /verif/check <Cxx> [--tier quick|thorough] [--replay FILE] [--runs N] [--jobs J]"""

import argparse
import os
import sys


def _setup_path():
    src = os.environ.get("TOASTY_SRC")
    if src:
        sys.path.insert(0, src)


def _scratch_root():
    """One scratch root per top-level invocation: every worker process, forked child and fresh interpreter of this
    invocation creates its run directories inside it, and the invocation removes it when it ends - forked pool
    workers leave through os._exit and cannot clean up after themselves. Roots of dead invocations are swept."""
    import atexit
    import shutil
    import signal
    import tempfile
    if os.environ.get("TOASTYSIM_SCRATCH") and os.path.isdir(os.environ["TOASTYSIM_SCRATCH"]):
        return
    base = "/dev/shm" if os.path.isdir("/dev/shm") and os.access("/dev/shm", os.W_OK) else tempfile.gettempdir()
    for name in os.listdir(base):
        if name.startswith("toastysim-root-"):
            try:
                pid = int(name.split("-")[2])
                os.kill(pid, 0)
            except (ValueError, IndexError, PermissionError):
                continue
            except ProcessLookupError:
                shutil.rmtree(os.path.join(base, name), ignore_errors=True)
    root = tempfile.mkdtemp(prefix="toastysim-root-%d-" % os.getpid(), dir=base)
    os.environ["TOASTYSIM_SCRATCH"] = root
    owner = os.getpid()

    def cleanup():
        if os.getpid() == owner:
            shutil.rmtree(root, ignore_errors=True)

    atexit.register(cleanup)

    def on_term(signum, frame):
        raise SystemExit(143)

    try:
        signal.signal(signal.SIGTERM, on_term)
    except ValueError:
        pass


def main(argv=None):
    _setup_path()
    _scratch_root()
    try:
        import faulthandler
        import signal
        faulthandler.register(signal.SIGUSR1, all_threads=True)     # `kill -USR1 <pid>` shows where a slow check is
    except Exception:
        pass
    ap = argparse.ArgumentParser(prog="check")
    ap.add_argument("prop")
    ap.add_argument("--tier", default=os.environ.get("VERIF_TIER", "quick"), choices=["quick", "thorough"])
    ap.add_argument("--replay")
    ap.add_argument("--runs", type=int)
    ap.add_argument("--jobs", type=int)
    ap.add_argument("--max-seconds", type=int)
    ap.add_argument("--digests", help="internal: print trace digests of the given run indices")
    ap.add_argument("--isolate", action="store_true", help="internal: execute every --digests index in its own forked child (pristine process state)")
    ap.add_argument("--scan", help="internal: execute the given run indices one forked child each and print their results / crashes")
    ap.add_argument("--show", type=int, help="run one seeded run index verbosely")
    ap.add_argument("--xproc-replay", help="internal: print the interpreter-independent facts (XPROC) of a replay file's run")
    args = ap.parse_args(argv)
    prop = args.prop.upper()
    seed = int(os.environ.get("VERIF_SEED", "0") or 0)

    from . import engine

    if args.replay:
        return engine.replay_file(prop, args.replay)
    if args.scan:
        os.environ["TOASTYSIM_TIER"] = args.tier
        return engine.scan(prop, seed, [int(x) for x in args.scan.split(",") if x])
    if args.xproc_replay:
        import json
        engine.setup_process()
        doc = json.load(open(args.xproc_replay))
        os.environ["TOASTYSIM_TIER"] = doc.get("tier", "quick")
        mod = engine.load_prop(prop)
        r = engine.run_replay(mod, doc["choices"])
        print("XPROC 0 %s" % json.dumps(r.get("xproc"), sort_keys=True))
        return 0
    if args.digests:
        engine.setup_process()
        mod = engine.load_prop(prop)
        for i in [int(x) for x in args.digests.split(",") if x]:
            if args.isolate:
                sys.stdout.flush()
                pid = os.fork()
                if pid == 0:
                    import json
                    r = engine.run_seeded(mod, seed, i)
                    print("DIGEST %d %s" % (i, r.get("digest") or "none"))
                    if r.get("xproc") is not None:
                        print("XPROC %d %s" % (i, json.dumps(r.get("xproc"), sort_keys=True)))
                    sys.stdout.flush()
                    os._exit(0)
                os.waitpid(pid, 0)
            else:
                r = engine.run_seeded(mod, seed, i)
                print("DIGEST %d %s" % (i, r.get("digest") or "none"))
        return 0
    if args.show is not None:
        import json
        engine.setup_process()
        mod = engine.load_prop(prop)
        r = engine.run_seeded(mod, seed, args.show, keep_kinds=True)
        print(json.dumps(r, indent=1, default=str))
        return 0
    return engine.check(prop, tier=args.tier, seed=seed, runs=args.runs, jobs=args.jobs, max_s=args.max_seconds)


if __name__ == "__main__":
    sys.exit(main())
