"""C15 - undefined pixels stay undefined: mask semantics and tile persistence,
decided for the *history* dimension only: model-based operation sequences on a
real tile store and on in-memory maskable buffers.  No scheduler, clock or
fault is involved (and none is claimed).  DESIGN.md 5.7."""

import hashlib
import os

import numpy as np

from toasty.image import Image, ImageMode
from toasty.pyramid import Pos, PyramidIO

from .common import viol

PROP = "C15"
LEVEL = "exploration"
RULE = ("one run = one tile store (format x image mode fixed per run) driven through a generated history of 2-14 operations on 1-2 "
        "positions - write(image with a drawn mask pattern, incl. fully undefined), read(default none / masked), locked update(rectangle, "
        "masked source), nested updates and held masked reads of two positions through one PyramidIO object, plant a leftover tile file "
        "behind toasty's back, delete a file externally, each on the default storage format or on a second one kept side by side through the "
        "format= override - plus in-memory fill / update of "
        "maskable buffers with drawn (also negative-step) indexers; after every operation the store is compared with a numpy model "
        "(file exists iff defined and not entirely undefined; read-back bit-identical with the same mode); non-trivial = some position "
        "was touched by >= 2 operations; distinct = sha1 of the operation log. Fault kinds: none; interleavings: 1 (serial).")
COMPONENTS = {
    "real": ["PyramidIO.write_image / read_image / update_image", "Image.fill_into_maskable_buffer / update_into_maskable_buffer / clear / is_completely_masked",
             "ImageMode.make_maskable_buffer", "Image.save / ImageLoader.load_path (numpy, astropy.io.fits, PIL)", "filelock.SoftFileLock (uncontended)", "real files on tmpfs"],
    "stub": ["nothing is stubbed; no scheduler or fault injection in this check"],
}
ASSUMPTIONS = [
    "only the history dimension of C15 is decided here (prior state of the tile file / buffer); the universal claim over all indexers, masks and modes is a pure-function property outside this technique and is only sampled as far as the operation arguments go",
    "F16x3 source pixels are all-NaN or all-finite; integer data are non-negative and a written integer tile is never entirely zero",
    "RGB sources are paired with RGBA tiles when the history contains updates (a maskable buffer for RGB data is RGBA)",
]
MANIFEST = {
    "text": "model-based search over operation histories on one real tile store and on maskable buffers (serial; no scheduler, no faults - none apply): after every operation the files and buffers must equal an independent numpy model of the mask semantics (exists iff not entirely undefined, read-back bit-identical incl. mode, update never touches undefined-source or outside-rectangle pixels, integer max rule). Only the 'any prior state' quantifier of C15 is claimed.",
    "design_ref": "DESIGN.md 5.7",
    "note": "trusted: numpy for the model; only the history dimension is decided",
    "technique": "deterministic replayable operation-history search against a reference model (stateful model-based testing on the seeded choice-sequence engine; no scheduler / faults apply)",
}
BUDGET = {"quick": (1500, 60), "thorough": (600000, 1200)}
REQUIRED_PROBES = {"quick": ["op_write", "op_update", "op_plant", "op_write_masked_over_existing", "op_read_absent_masked", "op_on_alt_format"],
                   "thorough": ["op_write", "op_update", "op_plant", "op_delete", "op_write_masked_over_existing", "op_read_absent_masked", "op_fill", "op_buf_update", "neg_step_indexer", "op_nested_update", "op_held_read",
                                "op_on_alt_format", "op_write_masked_over_existing_alt", "op_fill_index_arrays"]}
CHUNK = 40

MODES = ["F32", "RGBA", "I16", "F64", "RGB", "U8", "I32", "F16x3"]
FORMATS = {"F32": ["npy", "fits"], "F64": ["npy", "fits"], "I16": ["npy", "fits"], "I32": ["npy", "fits"], "U8": ["npy", "fits"],
           "RGB": ["png", "npy"], "RGBA": ["png", "npy"], "F16x3": ["npy"]}
IMODE = {"F32": ImageMode.F32, "F64": ImageMode.F64, "I16": ImageMode.I16, "I32": ImageMode.I32, "U8": ImageMode.U8,
         "RGB": ImageMode.RGB, "RGBA": ImageMode.RGBA, "F16x3": ImageMode.F16x3}
DT = {"F32": np.float32, "F64": np.float64, "I16": np.int16, "I32": np.int32, "U8": np.uint8, "F16x3": np.float16}


def undefined_buffer(mode, h, w):
    if mode in ("F32", "F64"):
        return np.full((h, w), np.nan, dtype=DT[mode])
    if mode == "F16x3":
        return np.full((h, w, 3), np.nan, dtype=np.float16)
    if mode in ("I16", "I32", "U8"):
        return np.zeros((h, w), dtype=DT[mode])
    return np.zeros((h, w, 4), dtype=np.uint8)


def gen_source(mode, h, w, uid, mask):
    """Source image array in `mode` with a mask pattern: 0 none, 1 stripes, 2 checker, 3 entirely undefined."""
    yy, xx = np.mgrid[0:h, 0:w]
    und = {0: np.zeros((h, w), bool), 1: (xx // 3) % 2 == 0, 2: (yy + xx) % 3 == 0, 3: np.ones((h, w), bool)}[mask]
    if mode in ("F32", "F64"):
        a = (uid * 1000.0 + yy * 1.5 + xx / 8.0).astype(DT[mode])
        if uid % 3 == 0:
            a[(yy * 5 + xx) % 31 == 0] = np.inf         # saturated samples are defined values
            a[(yy * 5 + xx) % 31 == 1] = -np.inf
        a[und] = np.nan
    elif mode == "F16x3":
        a = np.empty((h, w, 3), dtype=np.float16)
        for c in range(3):
            a[..., c] = (uid + c + (yy % 7) / 8.0 + (xx % 5)).astype(np.float16)
        if uid % 3 == 0:
            a[(yy * 3 + xx) % 29 == 0] = np.inf
        a[und] = np.nan
    elif mode in ("I16", "I32", "U8"):
        hi = {"I16": 30000, "I32": 10 ** 6, "U8": 250}[mode]
        a = ((uid * 37 + yy * 3 + xx) % hi + 1).astype(DT[mode])
        a[und] = 0
    elif mode == "RGBA":
        a = np.empty((h, w, 4), dtype=np.uint8)
        a[..., 0] = np.where((xx // 5) % 2 == 0, 0, (uid * 16 + 1) % 256)      # colour bytes may be 0 in defined pixels
        a[..., 1] = yy % 256
        a[..., 2] = xx % 256
        a[..., 3] = np.where(und, 0, 1 + (xx + yy + uid) % 255)
        if uid % 4 == 3:
            a[..., 3] = np.where(und, 0, 1)         # barely visible: alpha 1 is still defined
    elif mode == "RGB":
        a = np.empty((h, w, 3), dtype=np.uint8)
        a[..., 0] = (uid * 16 + 1) % 256
        a[..., 1] = yy % 256
        a[..., 2] = xx % 256
    return a


def src_defined(mode, a):
    if mode in ("F32", "F64"):
        return ~np.isnan(a)
    if mode == "F16x3":
        return ~np.any(np.isnan(a), axis=2)
    if mode == "RGBA":
        return a[..., 3] != 0
    if mode == "RGB":
        return np.ones(a.shape[:2], bool)
    return a != 0       # integer: zero means undefined


def model_update(mode, buf, src, iy, ix, by, bx):
    """Independent model of update_into_maskable_buffer on numpy arrays (buf modified in place)."""
    s = src[iy, ix]
    d = buf[by, bx]
    if mode in ("I16", "I32", "U8"):
        d[...] = np.where(s > d, s, d)
        return
    ok = src_defined(mode, s)
    if mode == "RGB":
        d[..., :3] = s
        d[..., 3] = 255
    else:
        d[ok] = s[ok]


def model_fill(mode, buf, src, iy, ix, by, bx):
    buf[...] = undefined_buffer(mode, buf.shape[0], buf.shape[1])
    s = src[iy, ix]
    if mode == "RGB":
        buf[by, bx, :3] = s
        buf[by, bx, 3] = 255
    else:
        buf[by, bx] = s


def entirely_undefined(mode, a):
    if a.dtype.kind == "f":
        return bool(np.all(np.isnan(a)))
    if a.ndim == 3 and a.shape[2] == 4:
        return bool(np.all(a[..., 3] == 0))
    return False


def same_pixels(a, b):
    a = np.asarray(a)
    b = np.asarray(b)
    if a.shape != b.shape or a.dtype.kind != b.dtype.kind or a.dtype.itemsize != b.dtype.itemsize:
        return False
    if a.dtype.kind == "f":
        return bool(np.array_equal(a.astype(np.float64), b.astype(np.float64), equal_nan=True))
    return bool(np.array_equal(a, b))


def plant(path, fmt, arr):
    """Write a tile file without toasty (a leftover from an earlier run / other software)."""
    os.makedirs(os.path.dirname(path), exist_ok=True)
    if fmt == "npy":
        np.save(path, arr)
    elif fmt == "fits":
        from astropy.io import fits
        fits.writeto(path, arr, overwrite=True)
    else:
        from PIL import Image as PILImage
        PILImage.fromarray(arr).save(path, format="PNG")


def draw_rect(ch, n, allow_neg):
    size = 1 + ch.draw(n, kind="rect_size")
    start = ch.draw(n - size + 1, kind="rect_start")
    return start, size


def run_one(ch, env):
    mode = MODES[ch.draw(len(MODES), kind="mode")]
    fmts = FORMATS[mode]
    fmt = fmts[ch.draw(len(fmts), kind="format")]
    rgb_store = mode == "RGB" and ch.draw(2, kind="rgb_store") == 1     # plain 3-channel tiles, no updates
    tile_mode = mode if (mode != "RGB" or rgb_store) else "RGBA"
    if fmt == "png" and tile_mode not in ("RGB", "RGBA"):
        fmt = "npy"
    # a second storage format of the same tiles (format= override) lives side by side with the default one
    alts = [f for f in FORMATS[tile_mode if tile_mode in FORMATS else mode] if f != fmt]
    if tile_mode == "RGBA":
        alts = [f for f in ("png", "npy") if f != fmt]
    alt = alts[0] if alts and ch.draw(2, kind="use_alt_format") == 1 else None
    nops = 2 + ch.draw(13, kind="n_ops")
    npos = 1 + ch.draw(2, p0=0.7, kind="npos")
    positions = [Pos(1, 0, 1), Pos(2, 3, 0)][:npos]
    d = env.fresh_dir()
    pio = PyramidIO(d, default_format=fmt)
    model = {}          # pos -> array as stored
    touched = {}
    log = []
    probes = {}
    res = {"config": {"mode": mode, "tile_mode": tile_mode, "format": fmt, "n_ops": nops, "npos": npos, "rgb_store": rgb_store, "alt_format": alt},
           "extra": {"mode_" + mode: 1, "fmt_" + fmt: 1}}
    violation = None
    uid = 0
    bufs = {}

    def probe(name):
        probes[name] = probes.get(name, 0) + 1

    def fkw(plane):
        return {"format": alt} if plane else {}

    def check_store(after):
      for plane in ((0, 1) if alt else (0,)):
        for p in positions:
            path = pio.tile_path(p, makedirs=False, **fkw(plane))
            exists = os.path.exists(path)
            want = model.get((p, plane))
            if want is None:
                if exists:
                    return viol(PROP, "stale-file-kept", "after %s: tile %s%s is entirely undefined / absent in the model but a file exists" % (after, tuple(p), " (format=%s plane)" % alt if plane else ""))
                img = pio.read_image(p, default="none", **fkw(plane))
                if img is not None:
                    return viol(PROP, "absent-reads-present", "after %s: absent tile %s read back as an image" % (after, tuple(p)))
            else:
                if not exists:
                    return viol(PROP, "tile-not-stored", "after %s: tile %s%s has defined pixels but no file was stored" % (after, tuple(p), " (format=%s plane)" % alt if plane else ""))
                img = pio.read_image(p, default="none", **fkw(plane))
                if img is None or not same_pixels(img.asarray(), want):
                    return viol(PROP, "read-back-differs", "after %s: tile %s does not read back with identical pixels (%s)" % (
                        after, tuple(p), "no image" if img is None else "shape %s dtype %s vs %s %s" % (img.asarray().shape, img.asarray().dtype, want.shape, want.dtype)))
                if img.mode != IMODE[tile_mode]:
                    return viol(PROP, "mode-changed", "after %s: tile %s read back with mode %s, stored %s" % (after, tuple(p), img.mode, tile_mode))
        locks = [f for _r, _d, fs in os.walk(d) for f in fs if f.endswith(".lock")]
        if locks:
            return viol(PROP, "lock-file-left", "after %s: lock files remain: %s" % (after, locks))
        return None

    for k in range(nops):
        ops = ["write", "update", "read", "write_masked", "plant", "delete", "fill", "buf_update", "nested_update", "held_read"]
        two = npos == 2 and not rgb_store
        weights = [4, 0 if rgb_store else 5, 2, 4 if alt else 2, 2, 1, 2, 2, 2 if two else 0, 2 if two else 0]
        tot = sum(weights)
        v = ch.draw(tot, kind="op")
        acc = 0
        for op, w in zip(ops, weights):
            acc += w
            if v < acc:
                break
        uid += 1
        p = positions[ch.draw(npos, kind="pos")]
        plane = ch.draw(2, p0=0.5, kind="plane") if alt else 0
        P = (p, plane)
        kw = fkw(plane)
        if plane:
            probe("op_on_alt_format")
        desc = "%s#%d%s" % (op, k, " format=%s" % alt if plane else "")
        if op in ("write", "write_masked"):
            mask = 3 if op == "write_masked" else ch.draw(3, kind="mask")
            arr = gen_source(tile_mode, 256, 256, uid, mask)
            if tile_mode in ("I16", "I32", "U8", "RGB") and op == "write_masked":
                # these modes have no 'entirely undefined' tile; write an ordinary one
                arr = gen_source(tile_mode, 256, 256, uid, 0)
            if op == "write_masked" and P in model:
                probe("op_write_masked_over_existing")
                if plane:
                    probe("op_write_masked_over_existing_alt")
            pio.write_image(p, Image.from_array(arr.copy()), **kw)
            model.pop(P, None)
            if not entirely_undefined(tile_mode, arr):
                model[P] = arr
            probe("op_write")
            touched[p] = touched.get(p, 0) + 1
            desc += " pos=%s mask=%d" % (tuple(p), mask)
        elif op == "update":
            mask = ch.draw(4, kind="mask")
            src = gen_source(mode, 256, 256, uid, mask)
            y0, h = draw_rect(ch, 256, False)
            x0, w = draw_rect(ch, 256, False)
            iy0 = ch.draw(256 - h + 1, kind="iy0")
            ix0 = ch.draw(256 - w + 1, kind="ix0")
            iy, ix, by, bx = slice(iy0, iy0 + h), slice(ix0, ix0 + w), slice(y0, y0 + h), slice(x0, x0 + w)
            inspect = ch.draw(4, kind="inspect_basis")
            with pio.update_image(p, masked_mode=IMODE[mode], default="masked", **kw) as basis:
                # callers may look at the tile they were handed before updating it
                if inspect == 1:
                    basis.asarray()
                elif inspect == 2:
                    basis.is_completely_masked()
                elif inspect == 3:
                    _ = (basis.dtype, basis.mode, basis.width)
                # what the body does with the tile it was handed: update it (mostly), wipe it, or wipe and then update it
                body = (0, 0, 0, 1, 2)[ch.draw(5, kind="update_body")]
                if body and not basis.asarray().flags.writeable:
                    body = 0        # clear() is documented to need a writable image (tiles loaded through PIL are not)
                if body:
                    basis.clear()
                    probe("op_update_body_clears")
                if body != 1:
                    Image.from_array(src.copy()).update_into_maskable_buffer(basis, iy, ix, by, bx)
            if inspect:
                probe("op_update_after_inspection")
            cur = model.get(P)
            buf = cur.copy() if cur is not None else undefined_buffer(tile_mode, 256, 256)
            if body:
                buf = undefined_buffer(tile_mode, 256, 256)
            if body != 1:
                model_update(mode, buf, src, iy, ix, by, bx)
            model.pop(P, None)
            if not entirely_undefined(tile_mode, buf):
                model[P] = buf
            probe("op_update")
            touched[p] = touched.get(p, 0) + 1
            desc += " pos=%s rect=(%d,%d,%d,%d) mask=%d" % (tuple(p), y0, h, x0, w, mask)
        elif op in ("nested_update", "held_read"):
            # two tile positions handled through the same PyramidIO object with overlapping lifetimes
            pa, pb = positions[0], positions[1]
            if ch.draw(2, kind="swap_ab"):
                pa, pb = pb, pa
            srcs = []
            for q in (pa, pb):
                uid += 1
                m = ch.draw(3, kind="mask")
                y0, h = draw_rect(ch, 256, False)
                x0, w = draw_rect(ch, 256, False)
                srcs.append((gen_source(mode, 256, 256, uid, m), slice(y0, y0 + h), slice(x0, x0 + w)))
            if op == "nested_update":
                with pio.update_image(pa, masked_mode=IMODE[mode], default="masked", **kw) as ba:
                    with pio.update_image(pb, masked_mode=IMODE[mode], default="masked", **kw) as bb:
                        Image.from_array(srcs[1][0].copy()).update_into_maskable_buffer(bb, srcs[1][1], srcs[1][2], srcs[1][1], srcs[1][2])
                    Image.from_array(srcs[0][0].copy()).update_into_maskable_buffer(ba, srcs[0][1], srcs[0][2], srcs[0][1], srcs[0][2])
                probe("op_nested_update")
            else:
                ia = pio.read_image(pa, default="masked", masked_mode=IMODE[mode], **kw)
                ib = pio.read_image(pb, default="masked", masked_mode=IMODE[mode], **kw)
                if ch.draw(2, kind="inspect_held"):
                    ia.is_completely_masked()
                    ib.asarray()
                Image.from_array(srcs[0][0].copy()).update_into_maskable_buffer(ia, srcs[0][1], srcs[0][2], srcs[0][1], srcs[0][2])
                Image.from_array(srcs[1][0].copy()).update_into_maskable_buffer(ib, srcs[1][1], srcs[1][2], srcs[1][1], srcs[1][2])
                pio.write_image(pa, ia, **kw)
                pio.write_image(pb, ib, **kw)
                probe("op_held_read")
            for q, (src, ys, xs) in zip((pa, pb), srcs):
                cur = model.get((q, plane))
                buf = cur.copy() if cur is not None else undefined_buffer(tile_mode, 256, 256)
                model_update(mode, buf, src, ys, xs, ys, xs)
                model.pop((q, plane), None)
                if not entirely_undefined(tile_mode, buf):
                    model[(q, plane)] = buf
                touched[q] = touched.get(q, 0) + 1
            desc += " a=%s b=%s" % (tuple(pa), tuple(pb))
        elif op == "read":
            default = ("none", "masked")[ch.draw(2, kind="read_default")]
            img = pio.read_image(p, default=default, masked_mode=IMODE[mode], **kw)
            want = model.get(P)
            desc += " pos=%s default=%s" % (tuple(p), default)
            if want is None:
                if default == "none":
                    if img is not None:
                        violation = viol(PROP, "absent-reads-present", "%s: a missing tile read back as an image" % desc)
                else:
                    probe("op_read_absent_masked")
                    exp = undefined_buffer(mode if mode != "RGB" else "RGBA", 256, 256)
                    if img is None or not same_pixels(img.asarray(), exp):
                        violation = viol(PROP, "masked-default-wrong", "%s: a missing tile read with default='masked' is not an all-undefined tile of the requested mode" % desc)
            elif img is None or not same_pixels(img.asarray(), want):
                violation = viol(PROP, "read-back-differs", "%s: tile does not read back with identical pixels" % desc)
        elif op == "plant":
            arr = gen_source(tile_mode, 256, 256, uid, ch.draw(3, kind="mask"))
            if entirely_undefined(tile_mode, arr):
                arr = gen_source(tile_mode, 256, 256, uid, 0)
            plant(pio.tile_path(p, **kw), alt if plane else fmt, arr)
            model[P] = arr
            probe("op_plant")
            touched[p] = touched.get(p, 0) + 1
            desc += " pos=%s" % (tuple(p),)
        elif op == "delete":
            path = pio.tile_path(p, makedirs=False, **kw)
            if os.path.exists(path):
                os.unlink(path)
                probe("op_delete")
            model.pop(P, None)
            touched[p] = touched.get(p, 0) + 1
            desc += " pos=%s" % (tuple(p),)
        else:
            # in-memory buffers
            bh = 1 + ch.draw(48, kind="buf_h")
            bw = 1 + ch.draw(48, kind="buf_w")
            key = ch.draw(2, kind="buf_id")
            ent = bufs.get(key)
            if ent is None:
                real = IMODE[mode].make_maskable_buffer(bh, bw)
                real.clear()
                ent = [undefined_buffer(mode if mode != "RGB" else "RGBA", bh, bw), real]
                bufs[key] = ent
            mbuf, real = ent
            bh, bw = mbuf.shape[:2]
            sh = 1 + ch.draw(64, kind="src_h")
            sw = 1 + ch.draw(64, kind="src_w")
            src = gen_source(mode, sh, sw, uid, ch.draw(4, kind="mask"))
            h = 1 + ch.draw(min(bh, sh), kind="rect_h")
            w = 1 + ch.draw(min(bw, sw), kind="rect_w")
            y0 = ch.draw(bh - h + 1, kind="y0")
            x0 = ch.draw(bw - w + 1, kind="x0")
            iy0 = ch.draw(sh - h + 1, kind="iy0")
            ix0 = ch.draw(sw - w + 1, kind="ix0")
            by = slice(y0, y0 + h)
            if ch.draw(3, kind="neg_step") == 2:
                stop = y0 - 1
                by = slice(y0 + h - 1, stop if stop >= 0 else None, -1)
                probe("neg_step_indexer")
            iy, ix, bx = slice(iy0, iy0 + h), slice(ix0, ix0 + w), slice(x0, x0 + w)
            xs = ch.draw(4, kind="x_indexer")
            if xs == 2:
                stop = x0 - 1
                bx = slice(x0 + w - 1, stop if stop >= 0 else None, -1)     # mirrored columns
                probe("neg_step_indexer")
            elif xs == 3 and x0 + w < bw:
                bx = slice(x0 - bw, x0 + w - bw)                            # the same columns, counted from the end
            before = mbuf.copy()
            if op == "fill" and ch.draw(3, kind="fill_indexer_kind") == 2:
                # fill also takes integer-array indexers (toasty's chunked samplers pass paired index arrays
                # `iy[ok], ix[ok], biy[ok], bix[ok]`): scattered pixels instead of a rectangle
                yy, xx = np.mgrid[0:h, 0:w]
                ok = ((yy * 3 + xx + uid) % 4) != 0
                if not ok.any():
                    ok[0, 0] = True
                iy, ix = (iy0 + yy)[ok], (ix0 + xx)[ok]
                by, bx = (y0 + yy)[ok], (x0 + xx)[ok]
                Image.from_array(src.copy()).fill_into_maskable_buffer(real, iy, ix, by, bx)
                model_fill(mode, mbuf, src, iy, ix, by, bx)
                probe("op_fill")
                probe("op_fill_index_arrays")
                by = slice(0, 0)        # (only used for the description below)
            elif op == "fill":
                Image.from_array(src.copy()).fill_into_maskable_buffer(real, iy, ix, by, bx)
                model_fill(mode, mbuf, src, iy, ix, by, bx)
                probe("op_fill")
            else:
                Image.from_array(src.copy()).update_into_maskable_buffer(real, iy, ix, by, bx)
                model_update(mode, mbuf, src, iy, ix, by, bx)
                probe("op_buf_update")
            desc += " buf=%dx%d src=%dx%d rect=(%d,%d,%d,%d)%s" % (bh, bw, sh, sw, y0, h, x0, w, " reversed-rows" if by.step == -1 else "")
            if not same_pixels(real.asarray(), mbuf):
                got = real.asarray()
                outside = np.ones((bh, bw), bool)
                outside[by, bx] = False
                if op == "buf_update" and not same_pixels(got[outside], before[outside]):
                    violation = viol(PROP, "pixel-outside-rectangle-changed", "%s: a pixel outside the addressed rectangle changed" % desc)
                else:
                    violation = viol(PROP, "buffer-differs-from-model", "%s: buffer after the operation differs from the mask-semantics model" % desc)
        log.append(desc)
        if violation is None and op not in ("fill", "buf_update"):
            violation = check_store(desc)
        if violation is not None:
            break

    res["violation"] = violation
    res["digest"] = hashlib.sha1(("\n".join(log) + repr(sorted(res["config"].items()))).encode()).hexdigest()
    res["nontrivial"] = any(v >= 2 for v in touched.values()) or len(log) >= 3
    res["probes"] = probes
    res["steps"] = len(log)
    res["trace"] = log[:40]
    return res
