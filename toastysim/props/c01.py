"""C01 - cascade walk: each live parent exactly once, only after all its live
children, and the walk returns; identically for serial and every worker count
and interleaving.  DESIGN.md 5.1."""

from collections import Counter

from toasty.pyramid import Pos, pos_children

from ..kernel import Sim
from . import common
from .common import viol

PROP = "C01"
LEVEL = "exploration"
RULE = ("one run = one generated pyramid (generic/TOAST/filtered, depth, filter table, apex) x worker count x "
        "one complete schedule of dispatcher, workers and queue feeders chosen step by step from the seeded choice "
        "sequence (incl. early queue timeouts); a run is non-trivial if at some step >= 2 tasks were enabled or a "
        "timeout was fired early; distinct = distinct sha1 of the full scheduler trace")
COMPONENTS = {
    "real": ["toasty.pyramid.Pyramid.walk/_walk_parallel/_walk_serial", "toasty.pyramid._mp_walk_worker",
             "PyramidReductionIterator", "toasty.toast tile generators", "toasty.par_util.resolve_parallelism"],
    "stub": ["multiprocessing.Queue (SimQueue model of CPython 3.12 queues.py)", "multiprocessing.Event",
             "multiprocessing.Process (threads + deep-copied arguments)", "time.sleep/time/monotonic (virtual clock)"],
}
ASSUMPTIONS = [
    "SimQueue/SimEvent/SimProcess faithfully model CPython 3.12 multiprocessing on Linux (fork)",
    "code between two IPC operations touches only process-private state (pre-emption only at primitives)",
    "pipes are reliable (no loss/duplication); no SIGKILL of workers",
]
MANIFEST = {
    "text": "seeded exploration of schedules: the real Pyramid.walk (dispatcher, workers, readiness table) runs under a scheduler that owns every queue/event/process operation and the clock; every run's recorded callback history is checked against an independent reference of the live set and the child-before-parent order, and the walk must return. Sampling, not proof: thousands to hundreds of thousands of distinct interleavings per batch.",
    "design_ref": "DESIGN.md 5.1",
    "note": "trusted: the SimQueue/SimEvent/SimProcess model of CPython 3.12 multiprocessing; pre-emption only at IPC/clock primitives; reliable pipes",
    "technique": "deterministic simulation: seeded schedule search over dispatcher/worker/feeder interleavings with early queue timeouts, history oracle vs reference model",
}
BUDGET = {"quick": (4000, 60), "thorough": (300000, 1500)}
REQUIRED_PROBES = {
    "quick": ["early_timeout", "get_empty_while_item_in_feeder", "pre_readied_parent"],
    "thorough": ["early_timeout", "get_empty_while_item_in_feeder", "pre_readied_parent", "get_empty_on_rlock",
                 "put_blocked_full"],
}
CHUNK = 40


class Recorder(object):
    def __init__(self, sim, nyield):
        self.sim = sim
        self.nyield = nyield
        self.serial = None

    def __deepcopy__(self, memo):
        return self

    def __call__(self, pos):
        if self.serial is not None:
            self.serial.append(("start", pos))
            self.serial.append(("end", pos))
            return
        sim = self.sim
        sim.event("start", pos.n, pos.x, pos.y)
        for _ in range(self.nyield):
            sim.yield_point("cb")
        sim.event("end", pos.n, pos.x, pos.y)


def check_history(cfg, hist, expected):
    """hist: list of (kind, Pos) in global order.  Returns a violation tuple or None."""
    d = cfg.depth
    counts = Counter(p for k, p in hist if k == "start")
    for p, c in counts.items():
        if p not in expected:
            if p.n >= d:
                return ("callback-for-leaf", "callback ran for %s at/below the leaf level %d" % (tuple(p), d))
            return ("callback-for-dead-tile", "callback ran for %s which is filtered out, outside the sub-pyramid, or has no reachable leaf" % (tuple(p),))
        if c != 1:
            return ("callback-repeated", "callback ran %d times for %s" % (c, tuple(p)))
    missing = [p for p in expected if p not in counts]
    if missing:
        return ("callback-missing", "no callback for live parents %s" % sorted(tuple(p) for p in missing)[:6])
    ended = set()
    for k, p in hist:
        if k == "end":
            ended.add(p)
        else:
            for c in pos_children(p):
                if c.n < d and c in expected and c not in ended:
                    return ("parent-before-child", "callback for %s started before the callback of its live child %s completed" % (tuple(p), tuple(c)))
    return None


def run_one(ch, env):
    cfg = common.draw_pyramid(ch, allow_deep=True)
    large = ch.draw(800 if common.thorough() else 150, kind="large_walk") == 0     # rarer in the (100x longer) thorough tier
    if large:
        # now and then a pyramid with a thousand or more seed tiles (size-dependent code paths in the dispatcher):
        # a full generic pyramid of depth 6 (7 in the thorough tier), or a wide filtered TOAST one
        if ch.draw(2, kind="large_filtered") == 1:
            m = (3, 5, 11)[ch.draw(3, kind="large_reject_mod")]
            rejects = {Pos(6, x, y) for x in range(64) for y in range(64) if (x * 7 + y * 13) % m == 0}
            rejects.add(Pos(2, ch.draw(4, kind="large_reject_x"), ch.draw(4, kind="large_reject_y")))
            cfg = common.PyrConfig("filtered", 6, None, rejects)
        else:
            cfg = common.PyrConfig("generic", 7 if (common.thorough() and ch.draw(2, kind="large_depth7")) else 6, None, set())
    workers = common.draw_workers(ch)
    if large:
        workers = min(workers, 4)
    nyield = ch.draw(4, kind="cb_yields")
    if large:
        nyield = 0
    expected = cfg.live_parents()
    res = {"config": dict(cfg.describe(), workers=workers, cb_yields=nyield, n_expected=len(expected)),
           "extra": {"kind_" + cfg.kind: 1, "workers_%d" % workers: 1, "with_apex": int(cfg.apex is not None)}}
    

    common.draw_progress(ch, res)
    # serial control (no scheduler involved)
    rec = Recorder(None, 0)
    rec.serial = []
    try:
        cfg.build().walk(rec, parallel=1, **common.pkw())
    except Exception as e:
        res["violation"] = viol(PROP, "serial-exception", "serial walk raised %r" % (e,))
        res["digest"] = "serial"
        return res
    v = check_history(cfg, rec.serial, expected)
    if v is not None:
        res["violation"] = viol(PROP, v[0], "serial walk: " + v[1], "serial")
        res["digest"] = "serial"
        return res

    sim = Sim(ch, step_cap=900000 if large else 40000)
    if large:
        res["extra"]["large_walk"] = 1
    res["config"].update(common.sched_config(sim))
    rec = Recorder(sim, nyield)
    pyr = cfg.build()

    twice = ch.draw(4, kind="walk_twice") == 3     # a Pyramid object may be walked again: same result expected
    # ... and its documented-as-changeable `depth` may be given another value in between
    import copy as _copy
    cfg2 = cfg
    if twice and cfg.kind in ("generic", "toast", "filtered") and not large and ch.draw(2, kind="depth_changed_between_walks") == 1:
        nd = cfg.depth + (1 if (cfg.depth < 3 and ch.draw(2, kind="depth_up")) else -1)
        if nd >= 0 and (cfg.apex is None or nd >= cfg.apex.n):
            cfg2 = _copy.copy(cfg)
            cfg2.depth = nd
            res["config"]["second_walk_depth"] = nd
            res.setdefault("probes", {})["depth_changed_between_walks"] = 1
    expected2 = cfg2.live_parents() if cfg2 is not cfg else expected

    def main():
        pyr.walk(rec, parallel=common.parg(workers), **common.pkw())
        if twice:
            sim.event("second-walk", 0, 0, 0)
            if cfg2 is not cfg:
                pyr.depth = cfg2.depth
            pyr.walk(rec, parallel=common.parg(workers), **common.pkw())

    main_task = sim.run(main)
    common.sim_summary(sim, res)
    if any(p for p in expected if _has_dead_child(cfg, p, expected)):
        sim.probes["pre_readied_parent"] = 1
        res.setdefault("probes", {})["pre_readied_parent"] = 1

    if sim.status != "returned":
        res["violation"] = viol(PROP, "walk-does-not-return", "walk(parallel=%d) did not return: simulator status %s at step %d, virtual time %.0fs; blocked: %s" % (
            workers, sim.status, sim.step, sim.now, [(t.name, t.waiting_op) for t in sim.tasks if t.state == "blocked"][:8]))
        return res
    if main_task.exc is not None:
        res["violation"] = viol(PROP, "walk-raised", "walk(parallel=%d) raised %r\n%s" % (workers, main_task.exc, main_task.exc_tb))
        return res
    hists = [[]]
    for e in sim.events:
        if e[2] == "second-walk":
            hists.append([])
        else:
            hists[-1].append((e[2], Pos(e[3], e[4], e[5])))
    if twice and len(hists) != 2:
        res["harness_error"] = "expected two walks, saw %d" % len(hists)
        return res
    for k, hist in enumerate(hists):
        v = check_history(cfg2 if k else cfg, hist, expected2 if k else expected)
        if v is not None:
            res["violation"] = viol(PROP, v[0], "walk(parallel=%d)%s: %s" % (workers, (" [second walk of the same Pyramid object%s]" % (", depth set to %d" % cfg2.depth if cfg2 is not cfg else "")) if k else "", v[1]))
            return res
    # same multiset as serial is implied (both equal the reference); worker exceptions are not expected
    if sim.stderr:
        res["violation"] = viol(PROP, "worker-traceback", "a worker printed a traceback: %s" % sim.stderr[0][-600:])
    return res


def _has_dead_child(cfg, p, expected):
    d = cfg.depth
    if p.n == d - 1:
        leaves = set(cfg.reachable_leaves())
        return any(c not in leaves for c in pos_children(p))
    return any(c not in expected for c in pos_children(p))
