"""C18 - publishing is crash-safe: index.wtml reaches the store only after all
else.  Crash / I/O-fault injection with restart against the real
PipelineManager.publish, LocalPipelineIo and refresh_impl.  DESIGN.md 5.9."""

import builtins
import errno
import hashlib
import os
import shutil
import types

from . import common
from .common import viol

PROP = "C18"
LEVEL = "fault_enumeration"
RULE = ("one run = one work directory with 1-3 approved images (random file sets incl. names sorting before/after index.wtml, "
        "sizes 0-20 kB) and a history of publish attempts; each attempt has a drawn directory-listing permutation for every "
        "listdir and at most one fault (process crash = uncatchable exception, or OSError EIO/ENOSPC) at one of the enumerated "
        "points: before/after each listdir, before each source open, after makedirs, after the truncating open, after k bytes of "
        "a copy chunk (short/torn write), after each put_item, before/after replace and rename; attempts repeat until one is "
        "fault-free; the real refresh runs after every attempt; the first 480 run indices of every batch are stratified over "
        "(0-3 extra files) x (first-attempt fault point 1-40) x (crash / EIO / ENOSPC) for a single small image, everything else "
        "is drawn; non-trivial = at least one fault fired; distinct = distinct sha1 of the operation/fault log")
COMPONENTS = {
    "real": ["toasty.pipeline.PipelineManager.publish", "toasty.pipeline.local_io.LocalPipelineIo.put_item/check_exists",
             "toasty.pipeline.cli.refresh_impl", "PipelineIo.load_from_config (real toasty-store-config.yaml)", "real directories on tmpfs"],
    "stub": ["os.listdir/rename/replace/makedirs, open() and shutil.copyfileobj as seen by toasty.pipeline and toasty.pipeline.local_io (fault points, listing order, torn writes)",
             "image source (stub listing the image ids)"],
}
ASSUMPTIONS = [
    "crash = process death: completed system calls persist, data still in a user-space buffer is lost; no power-loss / fsync model",
    "rename/replace are atomic; a write() may persist any prefix of its buffer before a crash",
    "decided for the local-disk store backend and the backend-agnostic publish loop; the Azure backend cannot run offline",
    "approved image directories are flat (as produced by process_todos with the LXY scheme) and do not change between attempts",
]
MANIFEST = {
    "text": "fault enumeration by seeded search over (file sets, listing orders, crash / I/O-error point, multi-attempt histories) against the real publish + local store + refresh; invariants checked after every crash and attempt: store never holds index.wtml next to a missing/incomplete file; published/ only after complete transfer; index.wtml last in every attempt's transfer log; the first fault-free attempt completes the job; refresh never skips a partially published image. For small file sets the sampled single-crash histories cover every (permutation, point) pair but the claim stays seeded search.",
    "design_ref": "DESIGN.md 5.9",
    "note": "trusted: crash model (process death, atomic rename, prefix-persisting writes); local backend only",
    "technique": "deterministic simulation with crash / I/O-fault injection and restart at enumerated fault points; invariant + recovery-liveness oracle over the durable state",
}
BUDGET = {"quick": (5000, 60), "thorough": (1500000, 1500)}
REQUIRED_PROBES = {
    "quick": ["fault_write", "fault_before_rename", "fault_after_put", "rerun_over_store_with_index", "crash_between_last_transfer_and_rename"],
    "thorough": ["fault_write", "fault_before_rename", "fault_after_rename", "fault_after_put", "fault_before_listdir", "fault_after_listdir",
                 "fault_after_truncate", "fault_after_makedirs", "fault_before_open_source", "rerun_over_store_with_index",
                 "crash_between_last_transfer_and_rename", "two_faults_same_image"],
}
CHUNK = 100
SELFTEST_EVERY = 20


N_SYSTEMATIC = 4 * 40 * 3


def systematic(i):
    """Stratified part of every batch: run index i < 480 fixes (number of extra files 0-3, first-attempt fault point
    1-40, fault kind) for a single small image; listing orders and later attempts stay random.  Together with the
    seeded rest this makes sure that every individual fault point of small file sets is hit in every batch."""
    if i >= N_SYSTEMATIC:
        return None
    n = i % 4
    fault_at = (i // 4) % 40
    kind = (i // 160) % 3       # crash / eio / enospc (the 'short' kind is drawn in the seeded part)
    #       nimg no-many-files nfiles  file names   sizes (100 bytes; index.wtml 300)   no sub-folder, fresh manager per attempt
    #       inject fault_at kind [no second fault]
    return [0, 0, n] + [0] * n + [2] * (n + 1) + [0, 0] + [0, fault_at, kind, 0]


IO_ERRNOS = [errno.EIO, errno.ESTALE, errno.ETIMEDOUT, errno.EAGAIN, errno.EBUSY, errno.EACCES, errno.EINTR, errno.ECONNRESET, errno.EROFS, errno.EDQUOT]


class Crash(BaseException):
    """The process died here."""


class Controller(object):
    def __init__(self, ch):
        self.ch = ch
        self.log = []
        self.n = 0
        self.fault_at = None
        self.fault_kind = None
        self.fired = None
        self.active = False
        self.puts = []
        self.probes = {}
        self.faults = {}

    def arm(self, fault_at, fault_kind, second_after=None):
        self.n = 0
        self.fault_at = fault_at
        self.fault_kind = fault_kind
        self.fired = None
        self.puts = []
        self.second_after = second_after     # a second OSError this many fault points after the first (same attempt)
        self.second_fired = None

    def _raise(self, what):
        self.fired = what
        self.faults["fault_" + what.split(" ")[0]] = self.faults.get("fault_" + what.split(" ")[0], 0) + 1
        self.faults[self.fault_kind] = self.faults.get(self.fault_kind, 0) + 1
        self.log.append("FAULT %s %s" % (self.fault_kind, what))
        if self.fault_kind == "crash":
            raise Crash(what)
        if self.fault_kind == "eio":
            # an I/O error of a drawn kind: hard errors as well as the ones network / FUSE file systems report as transient
            code = IO_ERRNOS[self.ch.draw(len(IO_ERRNOS), kind="errno")]
            self.faults["errno_" + errno.errorcode.get(code, str(code))] = self.faults.get("errno_" + errno.errorcode.get(code, str(code)), 0) + 1
        else:
            code = errno.ENOSPC     # 'short' on a buffered file surfaces as ENOSPC on the retry
        raise OSError(code, "injected %s at %s" % (self.fault_kind, what))

    def point(self, what):
        if not self.active:
            return
        self.n += 1
        self.log.append(what)
        if self.fault_at is not None and self.n == self.fault_at and self.fired is None:
            self._raise(what)
        if (self.second_after is not None and self.fired is not None and self.second_fired is None
                and self.fault_kind != "crash" and self.n == self.fault_at + self.second_after):
            # the process survived the first (I/O) error and is cleaning up or carrying on: it fails again
            self.second_fired = what
            self.faults["second_fault_same_attempt"] = self.faults.get("second_fault_same_attempt", 0) + 1
            self.log.append("FAULT second eio %s" % what)
            raise OSError(errno.EIO, "injected second I/O error at %s" % what)

    def write_point(self, raw, data, rel, unbuffered=False):
        """One transfer of bytes to the disk.  Returns the number of bytes accepted (all of them unless a 'short'
        fault fires on a file that toasty opened unbuffered: then, like write(2) on a nearly full disk, it accepts
        a prefix and returns the short count without an error)."""
        if not self.active:
            raw.write(data)
            return len(data)
        self.n += 1
        self.log.append("write %s %d" % (rel, len(data)))
        if self.fault_at is not None and self.n == self.fault_at and self.fired is None:
            k = self.ch.draw(len(data) + 1, kind="torn_k")
            raw.write(data[:k])
            if self.fault_kind == "short" and unbuffered:
                self.fired = "write %s short count %d/%d (no error)" % (rel, k, len(data))
                self.faults["fault_write"] = self.faults.get("fault_write", 0) + 1
                self.faults["short_count_write"] = self.faults.get("short_count_write", 0) + 1
                self.log.append("FAULT short %s" % self.fired)
                return k
            self._raise("write %s torn at %d/%d" % (rel, k, len(data)))
        raw.write(data)
        return len(data)


_ctl = [None]
_real_open = builtins.open


def ctl():
    return _ctl[0]


class OsProxy(types.ModuleType):
    def __init__(self):
        types.ModuleType.__init__(self, "os")
        self.path = os.path

    def __getattr__(self, name):
        return getattr(os, name)

    def listdir(self, p):
        c = ctl()
        if c is None or not c.active:
            return os.listdir(p)
        rel = os.path.relpath(p, c.root)
        c.point("before_listdir %s" % rel)
        names = sorted(os.listdir(p))
        out = []
        while names:
            out.append(names.pop(c.ch.draw(len(names), kind="listing")))
        c.log.append("listing %s -> %s" % (rel, out))
        c.point("after_listdir %s" % rel)
        return out

    def rename(self, a, b):
        c = ctl()
        if c is None or not c.active:
            return os.rename(a, b)
        rel = os.path.relpath(a, c.root)
        if c.puts and c.puts[-1][0] == os.path.basename(a):
            c.at_rename_after_last_transfer = True
        c.point("before_rename %s" % rel)
        os.rename(a, b)
        c.point("after_rename %s" % rel)

    def replace(self, a, b):
        c = ctl()
        if c is None or not c.active:
            return os.replace(a, b)
        rel = os.path.relpath(b, c.root)
        c.point("before_replace %s" % rel)
        os.replace(a, b)
        c.point("after_replace %s" % rel)

    def remove(self, p, *a, **kw):
        c = ctl()
        if c is None or not c.active:
            return os.remove(p, *a, **kw)
        rel = os.path.relpath(p, c.root)
        c.point("before_remove %s" % rel)
        os.remove(p, *a, **kw)
        c.point("after_remove %s" % rel)

    unlink = remove

    def makedirs(self, p, *a, **kw):
        c = ctl()
        r = os.makedirs(p, *a, **kw)
        if c is not None and c.active:
            c.point("after_makedirs %s" % os.path.relpath(p, c.root))
        return r


class FaultyWriter(object):
    MODE = "wb"

    """A file opened for writing as the store sees it: like io.BufferedWriter it keeps up to 8 KiB in user space;
    buffered data reach the disk at flush / close (each transfer to the disk is a fault point with a drawn torn
    prefix) and are LOST if the process dies or the write fails first."""

    BUFSIZE = 8192

    def __init__(self, path, c, mode="wb", unbuffered=False):
        self.c = c
        self.unbuffered = unbuffered    # toasty asked for buffering=0: write() is one write(2) and may return a short count
        self.full = False
        self.rel = os.path.relpath(path, c.root)
        self.raw = _real_open(path, mode, buffering=0)      # 'xb' raises FileExistsError like the real open
        self.closed = False
        self.failed = False
        self.buf = b""
        c.point("after_truncate %s" % self.rel)

    def _drain(self):
        if self.buf and not self.failed:
            data, self.buf = self.buf, b""
            try:
                self.c.write_point(self.raw, data, self.rel)
            except BaseException:
                self.failed = True
                raise

    def write(self, data):
        data = bytes(data)
        if self.unbuffered:
            if self.full:
                raise OSError(errno.ENOSPC, "injected: no space left on device (after a short write)")
            n = self.c.write_point(self.raw, data, self.rel, unbuffered=True)
            if n < len(data):
                self.full = True
            return n
        self.buf += data
        if len(self.buf) >= self.BUFSIZE:
            self._drain()
        return len(data)

    def flush(self):
        self._drain()

    def close(self):
        if not self.closed:
            self.closed = True
            try:
                self._drain()
            finally:
                self.raw.close()

    def __enter__(self):
        return self

    def __exit__(self, *a):
        self.close()
        return False


def _open_pipeline(path, mode="r", *a, **kw):
    c = ctl()
    if c is not None and c.active and "r" in mode and "b" in mode:
        c.point("before_open_source %s" % os.path.relpath(path, c.root))
    return _real_open(path, mode, *a, **kw)


def _open_local_io(path, mode="r", *a, **kw):
    c = ctl()
    if c is not None and c.active and any(m in mode for m in "wxa") and "b" in mode and "+" not in mode:
        buffering = a[0] if a else kw.get("buffering", -1)
        return FaultyWriter(path, c, ("x" if "x" in mode else "a" if "a" in mode else "w") + "b", unbuffered=(buffering == 0))
    return _real_open(path, mode, *a, **kw)


class ShutilProxy(types.ModuleType):
    def __init__(self):
        types.ModuleType.__init__(self, "shutil")

    def __getattr__(self, name):
        return getattr(shutil, name)

    def copyfileobj(self, fsrc, fdst, length=0):
        c = ctl()
        if c is None or not c.active:
            return shutil.copyfileobj(fsrc, fdst)
        while True:
            buf = fsrc.read(4096)
            if not buf:
                break
            fdst.write(buf)


_installed = [False]


class StubCandidate(object):
    def __init__(self, uid):
        self.uid = uid

    def get_unique_id(self):
        return self.uid

    def save(self, stream):
        stream.write(b"candidate " + self.uid.encode())


class StubSource(object):
    ids = []

    @classmethod
    def get_config_key(cls):
        return "verif_stub"

    @classmethod
    def deserialize(cls, data):
        return cls()

    def query_candidates(self):
        for i in StubSource.ids:
            yield StubCandidate(i)


def install():
    if _installed[0]:
        return
    _installed[0] = True
    import toasty.pipeline as tp
    import toasty.pipeline.local_io as lio
    proxy = OsProxy()
    tp.os = proxy
    lio.os = proxy
    tp.open = _open_pipeline
    lio.open = _open_local_io
    lio.shutil = ShutilProxy()
    orig_put = lio.LocalPipelineIo.put_item

    def put_item(self, *path, source=None):
        c = ctl()
        r = orig_put(self, *path, source=source)
        if c is not None and c.active:
            c.puts.append((path[0], "/".join(path[1:])))
            c.point("after_put %s" % "/".join(path))
        return r

    lio.LocalPipelineIo.put_item = put_item
    tp.IMAGE_SOURCE_CLASS_LOADERS["verif-stub"] = lambda: StubSource


NAMES = ["L0X0Y0.png", "L1X0Y0.png", "a_first.txt", "zz_last.bin", "thumb.jpg", "index_rel.wtml", "L1X1Y1.png", "Zeta.dat", "0.bin", "j.json",
         # names that look like what a store might use for its own temporary files, upper case, spaces, dot files
         "L0X0Y0.png.part", "index.wtml.part", "L0X0Y0.png.0.part", "INDEX.WTML", "with space.txt", ".hidden", "index.wtml.bak"]


def file_bytes(uid, name, size):
    seed = hashlib.sha1(("%s/%s" % (uid, name)).encode()).digest()
    out = (seed * (size // len(seed) + 1))[:size]
    return out


def run_one(ch, env):
    install()
    import toasty.pipeline as tp
    from toasty.pipeline import cli as pcli
    from toasty.pipeline.local_io import LocalPipelineIo

    d = env.fresh_dir()
    work = os.path.join(d, "work")
    store = os.path.join(d, "store")
    os.makedirs(os.path.join(work, "approved"))
    os.makedirs(store)
    LocalPipelineIo(store).save_config(os.path.join(work, "toasty-store-config.yaml"))
    with open(os.path.join(work, "toasty-pipeline-config.yaml"), "w") as f:
        f.write("source_type: verif-stub\nverif_stub: {}\n")
    nimg = 1 + ch.draw(3, p0=0.5, kind="nimg")
    # one history in forty has an image with a few hundred files (a tiled image: anything done 'per hundred files')
    many_files = ch.draw(40, kind="image_with_many_files") == 39
    images = {}
    has_subfolder = []
    for i in range(nimg):
        uid = ("img0", "img1", "img10")[i]      # one id is a prefix of another
        nother = ch.draw(7, kind="nfiles")
        names = ["index.wtml"]
        pool = list(NAMES)
        for _ in range(nother):
            names.append(pool.pop(ch.draw(len(pool), kind="fname")))
        files = {}
        for n in names:
            size = (0, 1, 100, 5000, 20000, 4096, 8193, 70000, 200000)[ch.draw(9, kind="fsize")]
            if n == "index.wtml" and size == 0:
                size = 300
            files[n] = file_bytes(uid, n, size)
        # one image in sixteen has a sub-folder with files of its own (toasty as it stands refuses such a layout with an
        # error before anything of the image's index is published; an implementation that accepts it has to keep the
        # index last among ALL files of the image)
        if ch.draw(16, kind="image_with_subfolder") == 15:
            for n in ("tiles/L1X0Y0.png", "tiles/L1X1Y0.png", "tiles/deep/x.bin")[:1 + ch.draw(3, kind="n_nested")]:
                files[n] = file_bytes(uid, n, (100, 5000, 70000)[ch.draw(3, kind="nested_size")])
            has_subfolder.append(uid)
        if many_files and i == 0:
            for k in range(101 + ch.draw(200, kind="n_many_files")):
                n = "L3X%dY%d.png" % (k % 8, k // 8)
                files[n] = file_bytes(uid, n, 10)
        images[uid] = files
        os.makedirs(os.path.join(work, "approved", uid))
        for n, b in files.items():
            os.makedirs(os.path.dirname(os.path.join(work, "approved", uid, n)), exist_ok=True)
            with open(os.path.join(work, "approved", uid, n), "wb") as f:
                f.write(b)
    StubSource.ids = sorted(images)

    c = Controller(ch)
    c.root = d
    _ctl[0] = c
    res = {"config": {"images": {u: {n: len(b) for n, b in fs.items()} for u, fs in images.items()}, "attempts": []},
           "extra": {"nimg_%d" % nimg: 1, "image_with_many_files": int(many_files)}}
    violation = None
    faulted_images = {}
    try:
        max_faulty = 5
        attempt = 0
        # one history in three keeps its PipelineManager object across attempts that ended with an error (a long-lived
        # process that retries); a crash always means a new process, hence a new object
        reuse_mgr = ch.draw(3, kind="reuse_manager") == 2
        mgr = None
        outcome = None
        while violation is None:
            attempt += 1
            faulty_allowed = attempt <= max_faulty
            fault_at = None
            kind = None
            if faulty_allowed and ch.draw(8, kind="inject") != 7:
                fault_at = 1 + ch.draw(72, kind="fault_at")
                if many_files and ch.draw(4, kind="fault_late") != 0:
                    fault_at = 1 + ch.draw(2400, kind="fault_at_late")      # somewhere in the hundreds of transfers
                kind = ("crash", "eio", "enospc", "short")[ch.draw(4, p0=0.55, kind="fault_kind")]
            second = None
            if fault_at is not None and kind != "crash" and ch.draw(5, kind="second_fault") == 4:
                second = 1 + ch.draw(4, kind="second_fault_after")
            c.arm(fault_at, kind, second)
            c.at_rename_after_last_transfer = False
            pre_index = [u for u in images if os.path.exists(os.path.join(store, u, "index.wtml")) and os.path.isdir(os.path.join(work, "approved", u))]
            if pre_index:
                c.probes["rerun_over_store_with_index"] = c.probes.get("rerun_over_store_with_index", 0) + 1
            c.log.append("ATTEMPT %d fault_at=%s kind=%s" % (attempt, fault_at, kind))
            prev_outcome = outcome
            outcome = "completed"
            c.active = True
            try:
                if mgr is None or not reuse_mgr or prev_outcome == "crashed":
                    mgr = tp.PipelineManager(work)
                elif attempt > 1:
                    c.probes["manager_object_reused"] = c.probes.get("manager_object_reused", 0) + 1
                outcome = "completed"
                mgr.publish()
            except Crash:
                outcome = "crashed"
            except OSError as e:
                if c.fired is None:
                    outcome = "raised %r" % (e,)
                else:
                    outcome = "oserror"
            except Exception as e:
                outcome = "raised %r" % (e,)
            finally:
                c.active = False
            if outcome.startswith("raised") and has_subfolder and c.fired is None:
                # refusing an image layout loudly is safe; what was published so far must still be consistent
                c.probes["subfolder_layout_refused"] = c.probes.get("subfolder_layout_refused", 0) + 1
                res["config"]["attempts"].append({"fault_at": fault_at, "kind": kind, "fired": None, "outcome": outcome[:120]})
                what = "after attempt %d (publish refused the layout: %s)" % (attempt, outcome[:80])
                violation = check_invariants(images, work, store, what) or check_refresh(pcli, images, work, store, what)
                break
            if outcome.startswith("raised"):
                violation = viol(PROP, "publish-raised", "attempt %d: publish raised although no fault was injected into it (or raised something other than the injected fault): %s" % (attempt, outcome))
                break
            if c.fired is not None:
                if c.fired.startswith("before_rename") and c.at_rename_after_last_transfer:
                    c.probes["crash_between_last_transfer_and_rename"] = c.probes.get("crash_between_last_transfer_and_rename", 0) + 1
                parts = c.fired.split(" ")
                if len(parts) > 1:
                    for u in images:
                        if ("/" + u in parts[1]) or parts[1].startswith(u + "/") or parts[1].endswith("/" + u):
                            faulted_images[u] = faulted_images.get(u, 0) + 1
                            if faulted_images[u] == 2:
                                c.probes["two_faults_same_image"] = c.probes.get("two_faults_same_image", 0) + 1
            res["config"]["attempts"].append({"fault_at": fault_at, "kind": kind, "fired": c.fired, "outcome": outcome})
            what = "after attempt %d (%s%s)" % (attempt, outcome, (": " + c.fired) if c.fired else "")
            # I3: index.wtml strictly after all other files of its image within this attempt
            seen_index = set()
            for u, n in c.puts:
                if n == "index.wtml":
                    seen_index.add(u)
                elif u in seen_index:
                    violation = viol(PROP, "index-not-last", "%s: %s/%s was transferred after %s/index.wtml; transfer log %s" % (what, u, n, u, c.puts))
                    break
            if violation is None:
                violation = check_invariants(images, work, store, what)
            if violation is None:
                violation = check_refresh(pcli, images, work, store, what)
            if violation is not None:
                break
            if c.fired is None:
                # I4: recovery liveness - a fault-free attempt completes the job
                for u in images:
                    if not os.path.isdir(os.path.join(work, "published", u)) or os.path.exists(os.path.join(work, "approved", u)):
                        violation = viol(PROP, "not-completed", "%s: fault-free publish left %s unpublished (approved: %s, published: %s)" % (
                            what, u, os.path.exists(os.path.join(work, "approved", u)), os.path.isdir(os.path.join(work, "published", u))))
                        break
                    bad = [n for n in images[u] if not _complete(store, u, n, images)]
                    if bad:
                        violation = viol(PROP, "not-completed", "%s: fault-free publish left %s incomplete in the store: %s" % (what, u, bad))
                        break
                break
    finally:
        _ctl[0] = None
        c.active = False
    res["violation"] = violation
    res["digest"] = hashlib.sha1("\n".join(c.log).encode()).hexdigest()
    res["nontrivial"] = bool(c.faults)
    res["faults"] = c.faults
    res["probes"] = c.probes
    res["steps"] = len(c.log)
    res["trace"] = c.log[:60]
    res["extra"]["attempts_%d" % min(attempt, 6)] = 1
    if res["config"]["attempts"] and res["config"]["attempts"][0]["fired"]:
        res["extra"]["first_attempt_fault_fired"] = 1
    return res


def _complete(store, u, n, images):
    p = os.path.join(store, u, n)
    if not os.path.isfile(p):
        return False
    with _real_open(p, "rb") as f:
        return f.read() == images[u][n]


def check_invariants(images, work, store, what):
    for u, files in images.items():
        has_index = os.path.exists(os.path.join(store, u, "index.wtml"))
        if has_index:
            bad = [n for n in files if n != "index.wtml" and not _complete(store, u, n, images)]
            if bad:
                states = {n: ("missing" if not os.path.exists(os.path.join(store, u, n)) else "%d of %d bytes" % (os.path.getsize(os.path.join(store, u, n)), len(files[n]))) for n in bad}
                return viol(PROP, "index-with-incomplete-files", "%s: the store holds %s/index.wtml but these files of the image are missing or incomplete: %s" % (what, u, states))
        if os.path.isdir(os.path.join(work, "published", u)):
            bad = [n for n in files if not _complete(store, u, n, images)]
            if bad:
                return viol(PROP, "published-but-incomplete", "%s: %s was moved to published/ but the store lacks complete copies of %s" % (what, u, bad))
            if os.path.exists(os.path.join(work, "approved", u)):
                return viol(PROP, "published-and-approved", "%s: %s is in both approved/ and published/" % (what, u))
        elif not os.path.isdir(os.path.join(work, "approved", u)):
            return viol(PROP, "image-lost", "%s: %s is in neither approved/ nor published/" % (what, u))
    return None


def check_refresh(pcli, images, work, store, what):
    cand = os.path.join(work, "candidates")
    shutil.rmtree(cand, ignore_errors=True)
    settings = types.SimpleNamespace(workdir=work)
    pcli.refresh_impl(settings)
    for u, files in images.items():
        skipped = not os.path.exists(os.path.join(cand, u))
        if skipped:
            bad = [n for n in files if n != "index.wtml" and not _complete(store, u, n, images)]
            if bad:
                return viol(PROP, "refresh-skips-partial", "%s: refresh treated %s as already done although the store lacks complete copies of %s" % (what, u, bad))
    return None
