"""Generator of FITS image collections that share one TAN projection and pixel
grid: a mosaic cut into 1-6 (possibly overlapping) rectangles with NaN borders,
each stored bottom-up or top-down with the WCS to match (CD-matrix headers)."""

import math
import os

import numpy as np


def mosaic_values(rows, cols, dtype, with_inf=True):
    """The underlying mosaic: value of canvas pixel (row r, col c) is 1000*r + c + 1 (exact in float32)."""
    r = np.asarray(rows, dtype=np.float64)[:, None]
    c = np.asarray(cols, dtype=np.float64)[None, :]
    v = (1000.0 * r + c + 1.0).astype(dtype)
    # a sprinkling of saturated samples: infinities are defined values (only NaN means undefined)
    if with_inf:
        k = (r * 7 + c * 13) % 997
        v[k == 0] = np.inf
        v[k == 1] = -np.inf
    return v


class Collection(object):
    pass


def draw_collection(ch, max_images=6, sizes=(60, 200, 300, 520, 700, 256, 512)):
    col = Collection()
    cw = sizes[ch.draw(len(sizes), kind="canvas_w")]
    chh = sizes[ch.draw(len(sizes), kind="canvas_h")]
    if 700 in sizes and ch.draw(14, kind="three_level_canvas") == 13:
        # wider than 1024 pixels: a power-of-two square of 2048, three tile levels
        cw = (1100, 1300)[ch.draw(2, kind="big_w")]
    n = 1 + ch.draw(max_images, kind="n_images")
    # layout 0: independent random rectangles; 1: one input covering (almost) the whole canvas - hence whole
    # tiles - with the others lying on top of it; 2: a regular grid of abutting / slightly overlapping cells
    layout = ch.draw(3, kind="layout")
    rects = []
    for k in range(n):
        if layout == 1 and k == 0:
            w = cw - ch.draw(min(cw, 8), kind="rect_w")
            h = chh - ch.draw(min(chh, 8), kind="rect_h")
        elif layout == 2:
            gx = 1 + (n > 1) + (n > 4)
            gy = (n + gx - 1) // gx
            cwid, chei = cw // gx, chh // gy
            ov = ch.draw(3, kind="grid_overlap") * 5
            w = min(cw, cwid + ov)
            h = min(chh, chei + ov)
        else:
            w = 1 + ch.draw(cw, kind="rect_w")
            h = 1 + ch.draw(chh, kind="rect_h")
        if layout == 2:
            c0 = min((k % gx) * cwid, cw - w)
            r0 = min((k // gx) * chei, chh - h)
        else:
            c0 = ch.draw(cw - w + 1, kind="rect_x")
            r0 = ch.draw(chh - h + 1, kind="rect_y")
        border = (0, 1, 3, 17)[ch.draw(4, kind="nan_border")]
        holes = ch.draw(2, kind="nan_holes")
        bottom_up = ch.draw(2, kind="bottom_up") == 1
        rects.append({"r0": r0, "c0": c0, "h": h, "w": w, "border": border, "holes": holes, "bottom_up": bottom_up})
    # input order
    order = list(range(n))
    perm = []
    while order:
        perm.append(order.pop(ch.draw(len(order), kind="input_order")))
    col.rects = [rects[i] for i in perm]
    # bounding box = the assembled mosaic
    R0 = min(r["r0"] for r in rects)
    C0 = min(r["c0"] for r in rects)
    R1 = max(r["r0"] + r["h"] for r in rects)
    C1 = max(r["c0"] + r["w"] for r in rects)
    col.R0, col.C0, col.H, col.W = R0, C0, R1 - R0, C1 - C0
    col.dtype = (np.float32, np.float64)[ch.draw(2, p0=0.7, kind="dtype")]
    # astrometry: tangent point at canvas pixel (px, py), integer or half-integer
    col.px = ch.draw(2 * cw + 1, kind="crpix_x") / 2.0 - cw * 0.25
    col.py = ch.draw(2 * chh + 1, kind="crpix_y") / 2.0 - chh * 0.25
    col.ra = (10.0, 0.05, 359.9, 187.25)[ch.draw(4, kind="ra")]
    col.dec = (20.0, -45.5, 0.0, 70.0)[ch.draw(4, kind="dec")]
    col.scale = (1.0 / 1024, 1.0 / 4096, 0.01)[ch.draw(3, kind="scale")]
    col.theta = (0.0, 30.0, -115.0, 180.0)[ch.draw(4, kind="rotation")]
    # how the files carry the data: image in the primary HDU or in the first extension behind an empty primary
    # (toasty scans for the first image HDU); undefined pixels as NaN or as a sentinel declared through `blankval`
    for r in col.rects:
        # 'pri' image in the primary HDU; 'ext' empty primary + SCI extension; 'ext+wht' the same followed by a weight
        # map of the same shape; 'pri+wht' primary image followed by a weight-map extension (toasty takes the first image)
        r["container"] = ("pri", "pri", "pri", "ext", "ext+wht", "pri+wht")[ch.draw(6, kind="hdu_container")]
        r["in_extension"] = r["container"].startswith("ext")
    col.blankval = (None, None, None, -32768.0, 0.0)[ch.draw(5, kind="blankval")]
    # saturated samples (+-inf) in one collection out of two; FITS pyramids holding infinities cannot be cascaded by
    # toasty (Builder.cascade needs DATAMIN / DATAMAX of the root tile), so workflows that cascade switch this off
    col.with_inf = ch.draw(2, kind="infinities") == 1
    # header form: CD matrix, or PCi_j + CDELTi (what astropy's WCS.to_header() writes; CDELT1 < 0 < CDELT2). toasty
    # compares the PC / CDELT cards of the inputs literally, so PC-form collections keep one storage parity
    col.header_form = ("cd", "cd", "cd", "pc")[ch.draw(4, kind="header_form")]
    if col.header_form == "pc":
        for r in col.rects:
            r["bottom_up"] = col.rects[0]["bottom_up"]
    return col


def load_kwargs(col):
    return {"blankval": col.blankval} if getattr(col, "blankval", None) is not None else {}


def load_collection(col):
    from toasty import collection
    return collection.load(col.paths, **load_kwargs(col))


def cd_topdown(col):
    s = col.scale
    t = math.radians(col.theta)
    return np.array([[-s * math.cos(t), s * math.sin(t)], [-s * math.sin(t), -s * math.cos(t)]])


def rect_data(col, r):
    """Top-down data of one input image, with its undefined pixels."""
    rows = np.arange(r["r0"], r["r0"] + r["h"])
    cols = np.arange(r["c0"], r["c0"] + r["w"])
    a = mosaic_values(rows, cols, col.dtype, getattr(col, "with_inf", True))
    b = r["border"]
    if b:
        a[:b, :] = np.nan
        a[-b:, :] = np.nan
        a[:, :b] = np.nan
        a[:, -b:] = np.nan
    if r["holes"]:
        rr, cc = np.meshgrid(rows, cols, indexing="ij")
        a[(rr // 7 + cc // 5) % 4 == 0] = np.nan
    if getattr(col, "blankval", None) is not None:
        a[a == col.blankval] = np.nan       # a defined sample that happens to equal the sentinel is undefined by declaration
    return a


def pasted_mosaic(col):
    """The assembled mosaic (top-down): defined pixels of every input pasted in; undefined never overwrites."""
    P = np.full((col.H, col.W), np.nan, dtype=col.dtype)
    for r in col.rects:
        a = rect_data(col, r)
        sub = P[r["r0"] - col.R0: r["r0"] - col.R0 + r["h"], r["c0"] - col.C0: r["c0"] - col.C0 + r["w"]]
        ok = ~np.isnan(a)
        sub[ok] = a[ok]
    return P


def header_for(col, r0, c0, h, bottom_up):
    from astropy.io import fits
    cd = cd_topdown(col).copy()
    crpix1 = col.px - c0 + 1.0
    crpix2 = col.py - r0 + 1.0
    if bottom_up:
        cd[0, 1] *= -1
        cd[1, 1] *= -1
        crpix2 = h + 1.0 - crpix2
    hdr = fits.Header()
    hdr["CTYPE1"] = "RA---TAN"
    hdr["CTYPE2"] = "DEC--TAN"
    hdr["CRVAL1"] = col.ra
    hdr["CRVAL2"] = col.dec
    hdr["CRPIX1"] = crpix1
    hdr["CRPIX2"] = crpix2
    if getattr(col, "header_form", "cd") == "pc":
        cdelt1 = -col.scale
        cdelt2 = col.scale if bottom_up else -col.scale
        hdr["CDELT1"] = cdelt1
        hdr["CDELT2"] = cdelt2
        hdr["PC1_1"] = cd[0, 0] / cdelt1
        hdr["PC1_2"] = cd[0, 1] / cdelt1
        hdr["PC2_1"] = cd[1, 0] / cdelt2
        hdr["PC2_2"] = cd[1, 1] / cdelt2
        return hdr
    hdr["CD1_1"] = cd[0, 0]
    hdr["CD1_2"] = cd[0, 1]
    hdr["CD2_1"] = cd[1, 0]
    hdr["CD2_2"] = cd[1, 1]
    return hdr


def write_collection(col, d):
    from astropy.io import fits
    paths = []
    os.makedirs(d, exist_ok=True)
    for k, r in enumerate(col.rects):
        a = rect_data(col, r)
        hdr = header_for(col, r["r0"], r["c0"], r["h"], r["bottom_up"])
        data = a[::-1] if r["bottom_up"] else a
        p = os.path.join(d, "in%d.fits" % k)
        data = np.ascontiguousarray(data)
        if getattr(col, "blankval", None) is not None:
            data = np.where(np.isnan(data), np.asarray(col.blankval, dtype=data.dtype), data)
        cont = r.get("container", "ext" if r.get("in_extension") else "pri")
        hdus = [fits.PrimaryHDU(), fits.ImageHDU(data=data, header=hdr, name="SCI")] if cont.startswith("ext") else [fits.PrimaryHDU(data=data, header=hdr)]
        if cont.endswith("+wht"):
            wht = np.full(data.shape, 0.25 + k, dtype=np.float32)       # same grid, other numbers: must not end up in the tiles
            hdus.append(fits.ImageHDU(data=wht, header=hdr, name="WHT"))
        fits.HDUList(hdus).writeto(p, overwrite=True)
        paths.append(p)
    col.paths = paths
    return paths


def mosaic_wcs(col):
    from astropy.wcs import WCS
    return WCS(header_for(col, col.R0, col.C0, col.H, False))


def describe(col):
    return {"canvas_bbox": [col.R0, col.C0, col.H, col.W], "dtype": np.dtype(col.dtype).name,
            "rects": [(r["r0"], r["c0"], r["h"], r["w"], r["border"], r["holes"], "bu" if r["bottom_up"] else "td", r.get("container", "pri")) for r in col.rects],
            "blankval": getattr(col, "blankval", None), "header_form": getattr(col, "header_form", "cd"),
            "crpix": [col.px, col.py], "crval": [col.ra, col.dec], "scale": col.scale, "rot": col.theta}


def numpy_tiles(col, P, bottom_up_tiles):
    """Independent cut of the centred power-of-two square into 256-pixel tiles."""
    n = max(col.W, col.H, 1)
    p2 = 256
    while p2 < n:
        p2 *= 2
    levels = int(round(math.log2(p2 // 256)))
    sq = np.full((p2, p2), np.nan, dtype=P.dtype)
    gx0 = (p2 - col.W) // 2
    gy0 = (p2 - col.H) // 2
    sq[gy0:gy0 + col.H, gx0:gx0 + col.W] = P
    tiles = {}
    for ty in range(p2 // 256):
        for tx in range(p2 // 256):
            t = sq[ty * 256:(ty + 1) * 256, tx * 256:(tx + 1) * 256]
            if np.all(np.isnan(t)):
                continue
            tiles[(levels, tx, ty)] = t[::-1] if bottom_up_tiles else t
    return levels, tiles
