"""C17 - the WTML and the returned data-set description match the files on
disk, for every workflow that emits index_rel.wtml and every history of calls on
one output directory.  DESIGN.md 5.8."""

import hashlib
import os
import xml.etree.ElementTree as ET

import numpy as np

from toasty.image import Image, ImageLoader
from toasty.pyramid import Pos, PyramidIO

from ..kernel import Sim
from . import common, fitsgen
from .common import viol

PROP = "C17"
LEVEL = "exploration"
RULE = ("one run = one workflow and call history on one output directory: FITS auto-tiling (tile_fits) in TAN or TOAST mode as a "
        "history of 1-4 identical calls with drawn override flags, study tiling (both naming schemes, png/npy/fits), all-sky TOAST "
        "sampling + cascade, or the pipeline's process_todos with a stub image source; parallel stages inside run under the seeded "
        "scheduler with a drawn worker count; after every call the WTML is expanded for every (level, x, y) and compared with the "
        "directory tree and, for tile_fits, with the returned Builder; non-trivial = history of >= 2 calls or >= 2 tile levels; "
        "distinct = sha1 of (scheduler traces + workload)")
COMPONENTS = {
    "real": ["toasty.tile_fits / FitsTiler.tile", "MultiTanProcessor", "Builder (tile_base_as_study, toast_base, cascade, apply_wcs_info, write_index_rel_wtml)",
             "StudyTiling", "PyramidIO path schemes", "toast.sample_layer(_filtered) + WcsSampler", "PipelineManager.process_todos", "toasty.cli entrypoint (tile-study, cascade)", "wwt_data_formats (WTML writer / reader)"],
    "stub": ["multiprocessing.Queue/Event/Process (model)", "clock", "pipeline image source (stub that study-tiles a generated image)"],
}
ASSUMPTIONS = [
    "a WWT client expands the Url template with {1}=level, {2}=x, {3}=y",
    "HiPS output (needs Java and network) is out of scope",
    "repeated calls in a history are identical except for the override flag (the property speaks of identical calls)",
    "SLURM_NPROCS is used to set the worker count of the parallel=None paths",
]
MANIFEST = {
    "text": "seeded exploration of workflows x call histories: real tiling entry points (parallel stages under the simulator) on generated inputs; after every call the written index_rel.wtml is expanded the way a client does and must address exactly the tile files on disk (each position's own tile, checked by content for study / TAN outputs), FileType = extension, TileLevels = deepest populated level; the Builder returned by tile_fits must agree with the WTML field by field, fresh and on reuse. Sampling, not proof.",
    "design_ref": "DESIGN.md 5.8",
    "note": "trusted: wwt_data_formats XML round trip; the URL-expansion convention",
    "technique": "deterministic simulation of call histories on one output directory (parallel stages under the seeded scheduler); model-based oracle: WTML expansion vs directory tree vs returned description",
}
BUDGET = {"quick": (600, 80), "thorough": (60000, 1500)}
REQUIRED_PROBES = {"quick": ["wf_tile_fits_tan", "wf_study", "history_reuse", "history_override"],
                   "thorough": ["wf_tile_fits_tan", "wf_tile_fits_toast", "toast_inputs_of_different_scale", "wf_study", "wf_allsky", "wf_pipeline", "wf_cli_study", "study_from_avm_tags", "wf_cli_wwtl", "history_reuse", "history_override", "scheme_LXY"]}
CHUNK = 3


def coverage_guard(extra, probes, n):
    """A first call that raises is 'not evaluated' (Correction 6); if that becomes the rule rather than the exception the
    generator is producing inputs toasty cannot handle and the check is looking at nothing (it happened: round 5 to 7)."""
    skipped = extra.get("first_call_raised_not_evaluated", 0)
    if n >= 100 and skipped > 0.15 * n:
        return ["%d of %d histories ended with 'first call raised - not evaluated'" % (skipped, n)]
    return []
SELFTEST_EVERY = 30
FRESH_SELFTEST = 3

META = {"index_rel.wtml", "thumb.jpg", "properties"}

WWTL_XML = """<?xml version='1.0' encoding='UTF-8'?>
<LayerContainer ID="55cb0cce-c44a-4a44-a509-ea66fce643a5">
  <Layers>
    <Layer Id="7ecb6411-e4ee-4dfa-90ef-77d6f486c7d2" Type="TerraViewer.ImageSetLayer" Name="Verif Test" ReferenceFrame="Sky"
           Color="NamedColor:White" Opacity="1" StartTime="1/1/0001 12:00:00 AM" EndTime="12/31/9999 11:59:59 PM"
           FadeSpan="00:00:00" FadeType="None" Extension="@EXT@" OverrideDefault="False">
      <ImageSet DataSetType="Sky" BandPass="Visible" Name="Verif Test" Projection="SkyImage" ReferenceFrame=""
                CenterX="85.5" CenterY="-2.5" OffsetX="22.2" OffsetY="15.5" Rotation="-89.99" BaseDegreesPerTile="0.002"
                QuadTreeMap="" Url="X:\\InternalPath@EXT@" DemUrl="" FileType="@EXT@" BaseTileLevel="0" TileLevels="0"
                WidthFactor="1" MeanRadius="0" BottomsUp="False" Sparse="False" ElevationModel="False" StockSet="False" Generic="False">
        <ThumbnailUrl />
      </ImageSet>
    </Layer>
  </Layers>
</LayerContainer>
"""


def parse_wtml(path):
    root = ET.parse(path).getroot()
    imgsets = [e for e in root.iter() if e.tag == "ImageSet"]
    if len(imgsets) != 1:
        raise ValueError("expected one ImageSet in %s, found %d" % (path, len(imgsets)))
    return imgsets[0].attrib


def expand(url, level, x, y):
    return url.replace("{1}", str(level)).replace("{2}", str(x)).replace("{3}", str(y))


def tile_files(out_dir, ext):
    found = set()
    for root, _dirs, files in os.walk(out_dir):
        for f in files:
            if f in META or f.endswith(".lock"):
                continue
            rel = os.path.relpath(os.path.join(root, f), out_dir)
            found.add(rel)
    return found


def check_wtml_vs_tree(out_dir, what, content_ref=None, max_levels=14):
    """content_ref: optional {(level, x, y): display-orientation array} for the deepest level."""
    wtml = os.path.join(out_dir, "index_rel.wtml")
    if not os.path.exists(wtml):
        return ("no-wtml", "%s: no index_rel.wtml was written" % what)
    att = parse_wtml(wtml)
    url = att.get("Url", "")
    ftype = att.get("FileType", "")
    levels = int(att.get("TileLevels", "-1"))
    files = tile_files(out_dir, None)
    exts = {f.rsplit(".", 1)[-1] for f in files}
    if len(exts) != 1:
        return ("mixed-extensions", "%s: tile files with several extensions: %s" % (what, sorted(exts)))
    ext = exts.pop()
    if ftype.lstrip(".") != ext:
        return ("wrong-filetype", "%s: WTML FileType %r but the tiles have extension %r" % (what, ftype, ext))
    if levels < 0 or levels > max_levels:
        return ("wrong-tilelevels", "%s: WTML TileLevels %r is not plausible" % (what, levels))
    expanded = {}
    if levels <= 6:
        for lv in range(levels + 1):
            for x in range(2 ** lv):
                for y in range(2 ** lv):
                    p = os.path.normpath(expand(url, lv, x, y))
                    if p in expanded:
                        return ("ambiguous-url", "%s: positions %s and %s expand to the same path %s" % (what, expanded[p], (lv, x, y), p))
                    expanded[p] = (lv, x, y)
    else:
        # deep pyramid: 4^levels positions cannot be enumerated; parse each file name back through the template
        # (placeholders separated by literal non-digit text make the parse unique) and re-expand it
        import re
        pat = re.escape(url)
        for ph, grp in (("{1}", "l"), ("{2}", "x"), ("{3}", "y")):
            e = re.escape(ph)
            if e in pat:
                pat = pat.replace(e, "(?P<%s>[0-9]+)" % grp, 1).replace(e, "(?P=%s)" % grp)
        if re.search(r"\)\(\?P", pat):
            return ("ambiguous-url", "%s: Url template %r has adjacent placeholders" % (what, url))
        rx = re.compile(pat)
        for f in files:
            m = rx.fullmatch(f.replace(os.sep, "/"))
            if not m:
                continue
            lv, x, y = int(m.group("l")), int(m.group("x")), int(m.group("y"))
            if lv <= levels and x < 2 ** lv and y < 2 ** lv and os.path.normpath(expand(url, lv, x, y)) == os.path.normpath(f):
                expanded[os.path.normpath(f)] = (lv, x, y)
    existing = {p for p in expanded if os.path.isfile(os.path.join(out_dir, p))}
    if existing != files:
        unreachable = sorted(files - existing)[:6]
        return ("files-not-addressed-by-url", "%s: tile files not reachable through Url=%r with TileLevels=%d: %s (addressed but absent is fine; files on disk: %d, addressed: %d)" % (
            what, url, levels, unreachable, len(files), len(existing)))
    deepest = max(expanded[p][0] for p in existing) if existing else -1
    if deepest != levels:
        return ("wrong-tilelevels", "%s: WTML TileLevels=%d but the deepest populated layer is %d" % (what, levels, deepest))
    if content_ref is not None:
        bottom_up = ext == "fits"
        want_paths = {os.path.normpath(expand(url, *k)): k for k in content_ref}
        have_deep = {p for p in existing if expanded[p][0] == levels}
        if set(want_paths) != have_deep:
            return ("tile-at-wrong-path", "%s: deepest-level tiles addressed by the WTML are %s but the populated positions are %s" % (
                what, sorted(expanded[p] for p in have_deep)[:8], sorted(content_ref)[:8]))
        for p, k in sorted(want_paths.items()):
            img = ImageLoader().load_path(os.path.join(out_dir, p))
            arr = np.asarray(img.asarray())
            if bottom_up:
                arr = arr[::-1]
            ref = content_ref[k]
            if arr.ndim == 3 and arr.shape[2] == 4 and ref.ndim == 3 and ref.shape[2] == 3:
                vis = arr[..., 3] != 0
                ok = np.array_equal(arr[..., :3][vis], ref[vis])
            elif ref.dtype.kind == "f":
                ok = arr.shape == ref.shape and np.array_equal(arr.astype(np.float64), ref.astype(np.float64), equal_nan=True)
            else:
                ok = arr.shape == ref.shape and np.array_equal(arr, ref)
            if not ok:
                return ("tile-at-wrong-path", "%s: the file addressed by the WTML for position %s does not hold that position's tile" % (what, k))
    return None


IMGSET_FIELDS = ["url", "file_type", "tile_levels", "projection", "center_x", "center_y", "offset_x", "offset_y", "rotation_deg",
                 "base_degrees_per_tile", "data_min", "data_max", "pixel_cut_low", "pixel_cut_high", "bottoms_up", "width_factor",
                 "base_tile_level", "data_set_type", "name"]
PLACE_FIELDS = ["ra_hr", "dec_deg", "zoom_level", "name", "data_set_type"]


def same(v1, v2):
    if isinstance(v1, (float, np.floating)) or isinstance(v2, (float, np.floating)):
        try:
            return bool(np.isclose(float(v1), float(v2), rtol=1e-9, atol=1e-12, equal_nan=True))
        except (TypeError, ValueError):
            return False
    return v1 == v2


def check_builder_vs_wtml(builder, out_dir, what):
    from wwt_data_formats.folder import Folder
    from wwt_data_formats.place import Place
    if builder is None:
        return ("no-description", "%s: no data-set description was returned" % what)
    f = Folder.from_file(os.path.join(out_dir, "index_rel.wtml"))
    item = f.children[0]
    if isinstance(item, Place):
        imgset = item.foreground_image_set or item.image_set
        place = item
    else:
        imgset, place = item, None
    for fld in IMGSET_FIELDS:
        v1, v2 = getattr(builder.imgset, fld), getattr(imgset, fld)
        if not same(v1, v2):
            return ("description-differs", "%s: returned image set %s = %r but the WTML on disk says %r" % (what, fld, v1, v2), fld)
    if place is not None:
        for fld in PLACE_FIELDS:
            v1, v2 = getattr(builder.place, fld), getattr(place, fld)
            if not same(v1, v2):
                return ("description-differs", "%s: returned place %s = %r but the WTML on disk says %r" % (what, fld, v1, v2), fld)
    return None


# -- workloads ------------------------------------------------------------------

def study_image(ch, kind):
    w = (60, 256, 300, 520, 257, 700, 512, 1)[ch.draw(8, kind="img_w")]
    h = (60, 256, 300, 520, 130, 513, 512, 255)[ch.draw(8, kind="img_h")]
    yy, xx = np.mgrid[0:h, 0:w]
    if kind == "rgb":
        arr = np.empty((h, w, 3), dtype=np.uint8)
        arr[..., 0] = xx % 251
        arr[..., 1] = yy % 241
        arr[..., 2] = (xx // 251) * 16 + (yy // 241) + 1
    else:
        arr = (1000.0 * yy + xx + 1.0).astype(np.float32)
    return arr


def study_tiles(arr):
    h, w = arr.shape[:2]
    n = max(w, h)
    p2 = 256
    while p2 < n:
        p2 *= 2
    levels = 0
    while 256 * 2 ** levels < p2:
        levels += 1
    gx0, gy0 = (p2 - w) // 2, (p2 - h) // 2
    out = {}
    for ty in range(p2 // 256):
        for tx in range(p2 // 256):
            y0, x0 = ty * 256 - gy0, tx * 256 - gx0
            ys, xs = max(0, y0), max(0, x0)
            ye, xe = min(h, y0 + 256), min(w, x0 + 256)
            if ye <= ys or xe <= xs:
                continue
            if arr.ndim == 3:
                t = np.zeros((256, 256, 3), dtype=arr.dtype)
                full = np.zeros((256, 256), dtype=bool)
                t[ys - y0:ye - y0, xs - x0:xe - x0] = arr[ys:ye, xs:xe]
            else:
                t = np.full((256, 256), np.nan, dtype=arr.dtype)
                t[ys - y0:ye - y0, xs - x0:xe - x0] = arr[ys:ye, xs:xe]
                if np.all(np.isnan(t)):
                    continue
            out[(levels, tx, ty)] = t
    return levels, out


class StubSource17(object):
    image = None
    workers = 1

    @classmethod
    def get_config_key(cls):
        return "verif_stub17"

    @classmethod
    def deserialize(cls, data):
        return cls()

    def query_candidates(self):
        return iter(())

    def fetch_candidate(self, unique_id, cand_data_stream, cachedir):
        pass

    def process(self, unique_id, cand_data_stream, cachedir, builder):
        img = Image.from_array(StubSource17.image)
        builder.tile_base_as_study(img)
        builder.default_tiled_study_astrometry()
        builder.cascade(parallel=StubSource17.workers)


def run_one(ch, env):
    import toasty
    from toasty import TilingMethod
    from toasty.builder import Builder

    wf = ("tile_fits_tan", "study", "tile_fits_tan", "allsky", "pipeline", "tile_fits_toast", "study", "cli_study", "cli_wwtl")[ch.draw(9, kind="workflow")]
    workers = (1, 2, 3)[ch.draw(3, kind="workers")]
    d = env.fresh_dir()
    out = os.path.join(d, "out")
    res = {"config": {"workflow": wf, "workers": workers}, "extra": {"wf_" + wf: 1},
           "probes": {"wf_" + wf: 1}}
    digests = []
    state = {"violation": None, "skip": None}
    old_env = os.environ.get("SLURM_NPROCS")
    os.environ["SLURM_NPROCS"] = str(workers)

    def under_sim(fn, label, first=True):
        sim = Sim(ch, step_cap=120000)
        sim.rootdir = d
        sim.write_yields = 0
        box = {}

        def main():
            box["r"] = fn()

        t = sim.run(main)
        common.sim_summary(sim, res)
        digests.append(sim.digest())
        if sim.status != "returned":
            state["violation"] = viol(PROP, "does-not-return", "%s did not return: %s" % (label, sim.status))
            return None
        if t.exc is not None:
            if first:
                # C17 says nothing about inputs a workflow rejects or cannot handle (e.g. an image too small for
                # the requested TOAST level): a first call that raises produced nothing to compare - not evaluated
                state["skip"] = "%s raised %r" % (label, t.exc)
                res["extra"]["first_call_raised_not_evaluated"] = 1
                return None
            state["violation"] = viol(PROP, "raised-on-repeat", "%s raised %r although the identical earlier call on this directory succeeded\n%s" % (label, t.exc, (t.exc_tb or "")[-900:]))
            return None
        if sim.stderr:
            state["violation"] = viol(PROP, "worker-traceback", "%s: a worker failed: %s" % (label, sim.stderr[0][-700:]))
            return None
        return box.get("r")

    try:
        if wf in ("tile_fits_tan", "tile_fits_toast"):
            toast_mode = wf == "tile_fits_toast"
            col = fitsgen.draw_collection(ch, max_images=1 if toast_mode else 3, sizes=(60, 200, 300) if toast_mode else (60, 200, 300, 520))
            col.with_inf = False        # tile_fits cascades: FITS pyramids holding infinities make Builder.cascade raise (not a C17 matter)
            if toast_mode:
                r0 = col.rects[0]
                r0["r0"], r0["c0"], r0["h"], r0["w"] = col.R0, col.C0, max(col.H, 40), max(col.W, 40)
                col.H, col.W = r0["h"], r0["w"]
                # one in three TOAST histories is a deep pyramid (arcsecond pixels -> ten or more tile levels, level chosen by toasty)
                deep = ch.draw(3, kind="toast_deep") == 2
                col.scale = 0.001 if deep else 0.05
                if deep:
                    r0["h"] = r0["w"] = col.H = col.W = 48
                    res["probes"]["deep_toast_pyramid"] = 1
                col.theta = (0.0, 30.0)[ch.draw(2, kind="rot2")]
                for r in col.rects:
                    r["border"] = min(r["border"], 1)
                # one in three shallow TOAST histories has a second input with a much coarser pixel scale (toasty then
                # has to settle on one level for the whole data set), in a drawn order, with the level left to toasty
                multi_scale = (not deep) and ch.draw(2, kind="toast_multi_scale") == 1
                if multi_scale:
                    col.scale = 8.0 / 60
                    r0["h"] = r0["w"] = col.H = col.W = 48
            fitsgen.write_collection(col, os.path.join(d, "in"))
            if toast_mode and multi_scale:
                from astropy.io import fits as _fits
                from astropy.wcs import WCS as _WCS
                w = _WCS(naxis=2)
                w.wcs.ctype = ["RA---TAN", "DEC--TAN"]
                w.wcs.crval = [col.ra, col.dec]
                w.wcs.crpix = [20.5, 20.5]
                coarse = (45.0, 20.0)[ch.draw(2, kind="coarse_scale")] / 60
                w.wcs.cdelt = [-coarse, coarse]
                w.wcs.cunit = ["deg", "deg"]
                yy, xx = np.mgrid[0:40, 0:40]
                wide = os.path.join(d, "in", "wide.fits")
                _fits.PrimaryHDU(data=(1.0 + yy * 0.25 + xx / 64.0).astype(np.float32), header=w.to_header()).writeto(wide, overwrite=True)
                col.paths = [wide] + col.paths if ch.draw(2, kind="coarse_first") else col.paths + [wide]
                res["probes"]["toast_inputs_of_different_scale"] = 1
                res["config"]["toast_multi_scale"] = {"coarse_deg_per_px": coarse, "coarse_first": col.paths[0] == wide}
            P = fitsgen.pasted_mosaic(col)
            if np.all(np.isnan(P)):
                res["digest"] = "all-undefined"
                return res
            content_ref = None
            if not toast_mode:
                from toasty import collection as tcoll
                # the content reference (a plain cut of the assembled mosaic) applies when toasty takes its
                # multi-TAN route; collections it does not recognise as one grid are reprojected instead
                if tcoll.load(col.paths)._is_multi_tan():
                    lv, ref = fitsgen.numpy_tiles(col, P, False)
                    content_ref = ref
                    res["probes"]["content_checked"] = 1
            # one history in four lets tile_fits choose the output directory itself (next to the first input)
            default_out = ch.draw(4, kind="default_out_dir") == 3
            res["probes"]["default_out_dir"] = int(default_out)
            nops = 1 + ch.draw(4, p0=0.35, kind="n_calls")
            hist = []
            # one history in four starts in a directory that already holds a pyramid made with the OTHER tiling
            # method (deeper TOAST / shallower TAN); the first call under test then has to override it
            other_first = (not default_out) and ch.draw(4, kind="other_method_first") == 3
            if other_first:
                res["probes"]["override_of_other_method"] = 1

                def pre():
                    okw = {} if toast_mode else {"start": 2}
                    return toasty.tile_fits(col.paths, out_dir=out, override=True, parallel=workers,
                                            tiling_method=TilingMethod.TAN if toast_mode else TilingMethod.TOAST, **dict(okw, **fitsgen.load_kwargs(col)))

                under_sim(pre, "tile_fits with the other tiling method into the same directory (pre-history)")
                if state["violation"] or state["skip"]:
                    other_first = False
                    state["violation"] = None
                    state["skip"] = None
                    import shutil
                    shutil.rmtree(out, ignore_errors=True)
            for k in range(nops):
                override = ch.draw(2, kind="override") == 1
                if k == 0 and other_first:
                    override = True
                hist.append(override)
                if k > 0:
                    res["probes"]["history_override" if override else "history_reuse"] = 1
                label = "tile_fits(%s, call %d of %d, override=%s, %d workers)" % ("TOAST" if toast_mode else "TAN", k + 1, nops, override, workers)
                kw = {"start": 1 + ch.draw(2, kind="toast_start")} if (toast_mode and not deep) else {}
                if toast_mode and multi_scale and k == 0 and ch.draw(3, kind="level_left_to_toasty") != 0:
                    kw = {}
                if k > 0 and toast_mode:
                    kw = dict(last_kw)
                last_kw = dict(kw)

                def call():
                    return toasty.tile_fits(col.paths, out_dir=None if default_out else out, override=override, parallel=workers,
                                            tiling_method=TilingMethod.TOAST if toast_mode else TilingMethod.TAN, **dict(kw, **fitsgen.load_kwargs(col)))

                r = under_sim(call, label, first=(k == 0))
                if state["violation"] or state["skip"]:
                    break
                out_dir, b = r
                if default_out:
                    if not os.path.isdir(out_dir) or os.path.commonpath([os.path.abspath(out_dir), d]) != d:
                        state["violation"] = viol(PROP, "bad-default-out-dir", "%s: returned output directory %r does not exist under the inputs' directory" % (label, out_dir))
                        break
                    out = out_dir
                v = check_wtml_vs_tree(out, label, content_ref)
                if v is None:
                    v = check_builder_vs_wtml(b, out, label)
                    if v is not None and k > 0 and not override:
                        v = (v[0], v[1], "reuse")
                if v is not None:
                    state["violation"] = viol(PROP, v[0], v[1], v[2] if len(v) > 2 and v[2] == "reuse" else "")
                    break
            res["config"].update(fitsgen.describe(col), history_overrides=hist)
            res["nontrivial"] = nops >= 2
        elif wf == "study":
            scheme = ("L/Y/YX", "LXY")[ch.draw(2, kind="scheme")]
            fmt = ("png", "npy", "fits", "jpg")[ch.draw(4, kind="format")]
            arr = study_image(ch, "rgb" if fmt in ("png", "jpg") else "f32")
            lv, ref = study_tiles(arr)
            if fmt == "jpg":
                ref = None      # lossy: names, file type and levels only
            res["config"].update(scheme=scheme, format=fmt, shape=list(arr.shape), tile_levels=lv)
            res["probes"]["scheme_" + scheme.replace("/", "")] = 1
            label = "study tiling (%s, %s, %dx%d, %d workers)" % (scheme, fmt, arr.shape[1], arr.shape[0], workers)

            def call():
                pio = PyramidIO(out, scheme=scheme, default_format=fmt)
                b = Builder(pio)
                b.tile_base_as_study(Image.from_array(arr))
                b.default_tiled_study_astrometry()
                b.cascade(parallel=workers)
                b.write_index_rel_wtml()
                return b

            b = under_sim(call, label)
            if not state["violation"] and not state["skip"]:
                v = check_wtml_vs_tree(out, label, ref)
                if v is None:
                    v = check_builder_vs_wtml(b, out, label)
                if v is not None:
                    state["violation"] = viol(PROP, v[0], v[1])
            res["nontrivial"] = lv >= 1
        elif wf == "cli_study":
            # the command-line route: `toasty tile-study` writes the base layer and the WTML, `toasty cascade` the rest
            from PIL import Image as PILImage
            from toasty import cli as tcli
            arr = study_image(ch, "rgb")
            lv, ref = study_tiles(arr)
            src = os.path.join(d, "input.png")
            PILImage.fromarray(arr).save(src)
            # one run in three: the image carries AVM tags (title, credit, reference URL, full astrometry) and the
            # study takes its positioning from them (`--avm`)
            with_avm = ch.draw(3, kind="avm_tags") == 2
            if with_avm:
                from pyavm import AVM
                avm = AVM()
                avm.Title = "Generated image"
                avm.Description = "A synthetic press-release image"
                avm.Credit = "toastysim"
                if ch.draw(4, kind="avm_reference_url") != 0:
                    avm.ReferenceURL = "https://observatory.example.org/public/images/x1/"
                h_, w_ = arr.shape[:2]
                avm.Spatial.CoordinateFrame = "ICRS"
                avm.Spatial.Equinox = "J2000"
                avm.Spatial.ReferenceValue = [(83.6, 0.02, 359.9)[ch.draw(3, kind="avm_ra")], (22.0, -60.5)[ch.draw(2, kind="avm_dec")]]
                avm.Spatial.ReferenceDimension = [w_, h_]
                avm.Spatial.ReferencePixel = [w_ / 2 + 0.5, h_ / 2 + 0.5]
                avm.Spatial.Scale = [-0.001, 0.001]
                avm.Spatial.Rotation = (10.0, 0.0, -135.0)[ch.draw(3, kind="avm_rot")]
                avm.Spatial.CoordsystemProjection = "TAN"
                avm.Spatial.Quality = "Full"
                tagged = os.path.join(d, "input-avm.png")
                avm.embed(src, tagged)
                src = tagged
                res["probes"]["study_from_avm_tags"] = 1
            res["config"].update(shape=list(arr.shape), tile_levels=lv, avm=with_avm)
            label = "toasty tile-study%s + cascade CLI (%dx%d, %d workers)" % (" --avm" if with_avm else "", arr.shape[1], arr.shape[0], workers)

            def call():
                tcli.entrypoint(["tile-study"] + (["--avm"] if with_avm else []) + ["--placeholder-thumbnail", "--outdir", out, src])
                tcli.entrypoint(["cascade", "--start", str(lv), "-j", str(workers), out])

            under_sim(call, label)
            if not state["violation"] and not state["skip"]:
                v = check_wtml_vs_tree(out, label, ref)
                if v is not None:
                    state["violation"] = viol(PROP, v[0], v[1])
            res["nontrivial"] = lv >= 1
        elif wf == "cli_wwtl":
            # `toasty tile-wwtl`: a WWT layer file (XML + embedded jpg / png image) re-tiled as a study, then `toasty cascade`
            import io
            from PIL import Image as PILImage
            from wwt_data_formats.filecabinet import FileCabinetWriter
            from toasty import cli as tcli
            ext = (".jpg", ".png")[ch.draw(2, kind="wwtl_image_format")]
            arr = study_image(ch, "rgb")
            buf = io.BytesIO()
            PILImage.fromarray(arr).save(buf, format="JPEG" if ext == ".jpg" else "PNG", quality=95)
            decoded = np.asarray(PILImage.open(io.BytesIO(buf.getvalue())).convert("RGB"))
            lv, ref = study_tiles(decoded)
            fw = FileCabinetWriter()
            fw.add_file_with_data("55cb0cce-c44a-4a44-a509-ea66fce643a5.wwtxml", WWTL_XML.replace("@EXT@", ext).encode("utf-8"))
            fw.add_file_with_data("55cb0cce-c44a-4a44-a509-ea66fce643a5\\7ecb6411-e4ee-4dfa-90ef-77d6f486c7d2" + ext, buf.getvalue())
            src = os.path.join(d, "image.wwtl")
            with open(src, "wb") as f:
                fw.emit(f)
            res["config"].update(shape=list(arr.shape), tile_levels=lv, embedded=ext)
            label = "toasty tile-wwtl + cascade CLI (%s image %dx%d, %d workers)" % (ext, arr.shape[1], arr.shape[0], workers)

            def call():
                tcli.entrypoint(["tile-wwtl", "--placeholder-thumbnail", "--outdir", out, src])
                if lv >= 1:
                    tcli.entrypoint(["cascade", "--start", str(lv), "-j", str(workers), out])

            under_sim(call, label)
            if not state["violation"] and not state["skip"]:
                v = check_wtml_vs_tree(out, label, ref)
                if v is not None:
                    state["violation"] = viol(PROP, v[0], v[1])
            res["nontrivial"] = lv >= 1
        elif wf == "allsky":
            depth = (1, 0, 2)[ch.draw(3, kind="depth")]
            scheme = ("L/Y/YX", "LXY")[ch.draw(2, kind="scheme")]
            fmt = ("png", "npy")[ch.draw(2, kind="format")]
            res["config"].update(scheme=scheme, format=fmt, depth=depth)
            res["probes"]["scheme_" + scheme.replace("/", "")] = 1
            label = "all-sky TOAST tiling (depth %d, %s, %s, %d workers)" % (depth, scheme, fmt, workers)
            from toasty.samplers import plate_carree_sampler
            src = np.zeros((90, 180, 3), dtype=np.uint8)
            src[..., 0] = np.arange(180)[None, :]
            src[..., 1] = np.arange(90)[:, None]
            src[..., 2] = 77

            def call():
                pio = PyramidIO(out, scheme=scheme, default_format=fmt)
                b = Builder(pio)
                b.toast_base(plate_carree_sampler(src), depth, parallel=workers)
                b.cascade(parallel=workers)
                b.write_index_rel_wtml()
                return b

            b = under_sim(call, label)
            if not state["violation"] and not state["skip"]:
                v = check_wtml_vs_tree(out, label, None)
                if v is None:
                    v = check_builder_vs_wtml(b, out, label)
                if v is not None:
                    state["violation"] = viol(PROP, v[0], v[1])
            res["nontrivial"] = depth >= 1
        else:
            import toasty.pipeline as tp
            from toasty.pipeline.local_io import LocalPipelineIo
            tp.IMAGE_SOURCE_CLASS_LOADERS["verif-stub17"] = lambda: StubSource17
            work = os.path.join(d, "work")
            os.makedirs(os.path.join(work, "candidates"))
            os.makedirs(os.path.join(d, "store"))
            LocalPipelineIo(os.path.join(d, "store")).save_config(os.path.join(work, "toasty-store-config.yaml"))
            with open(os.path.join(work, "toasty-pipeline-config.yaml"), "w") as f:
                f.write("source_type: verif-stub17\nverif_stub17: {}\n")
            uid = "img0"
            os.makedirs(os.path.join(work, "cache_todo", uid))
            with open(os.path.join(work, "candidates", uid), "wb") as f:
                f.write(b"x")
            arr = study_image(ch, "rgb")
            StubSource17.image = arr
            StubSource17.workers = workers
            lv, ref = study_tiles(arr)
            res["config"].update(shape=list(arr.shape), tile_levels=lv)
            res["probes"]["scheme_LXY"] = 1
            label = "pipeline process_todos (%dx%d, %d workers)" % (arr.shape[1], arr.shape[0], workers)

            def call():
                tp.PipelineManager(work).process_todos()

            under_sim(call, label)
            if not state["violation"] and not state["skip"]:
                v = check_wtml_vs_tree(os.path.join(work, "processed", uid), label, ref)
                if v is not None:
                    state["violation"] = viol(PROP, v[0], v[1])
            res["nontrivial"] = lv >= 1
    finally:
        if old_env is None:
            os.environ.pop("SLURM_NPROCS", None)
        else:
            os.environ["SLURM_NPROCS"] = old_env
    res["violation"] = state["violation"]
    if state["skip"]:
        res["probes"] = {}
        res["nontrivial"] = False
        res["config"]["not_evaluated"] = state["skip"][:200]
    res["digest"] = hashlib.sha1(("|".join(digests) + repr(sorted(res["config"].items(), key=str))).encode()).hexdigest()
    return res
