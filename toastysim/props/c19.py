"""C19 - an error while processing any tile is reported, never swallowed by
parallelism: exception injection over schedules with a bounded-liveness oracle.
DESIGN.md 5.10."""

import errno
import os

from ..kernel import Sim
from . import common, stages
from .common import viol

PROP = "C19"
LEVEL = "fault_enumeration"
RULE = ("one run = one stage (walk, leaf visit, transform, real u8_to_rgb, multi-TAN, multi-WCS) x generated item set x "
        "worker count x exactly one injected failure (the callback raises - a generic Exception, OSError, FileNotFoundError, "
        "ValueError, KeyError or EOFError - at the k-th started item, or the tile I/O seam raises OSError(EIO) inside a worker) x one complete schedule from the seeded choice sequence; after the injection "
        "no further early timeouts are injected and scheduling is fair; non-trivial = a failure was injected in a parallel "
        "mode; distinct = distinct sha1 of the scheduler trace")
COMPONENTS = {
    "real": ["Pyramid.walk/_walk_parallel/_mp_walk_worker", "Pyramid.visit_leaves/_visit_leaves_parallel/_mp_visit_worker",
             "transform._do_a_transform/_transform_parallel/_transform_mp_worker", "MultiTanProcessor.tile", "MultiWcsProcessor.tile",
             "toasty.par_util", "PyramidIO / Image.save / filelock (I/O-fault runs)"],
    "stub": ["multiprocessing.Queue/Event/Process incl. exit codes and terminate (model)", "clock"],
}
ASSUMPTIONS = [
    "the multiprocessing model incl. Process.exitcode (1 after an uncaught exception, traceback on stderr) and terminate() is faithful",
    "fault model = an exception raised by item processing (not SIGKILL / OOM-kill of a worker)",
    "bounded liveness: 'reports' means raises to the caller within 600 virtual seconds after the failure, under a fair scheduler",
]
MANIFEST = {
    "text": "fault enumeration by seeded search: for every parallel stage the real entry point runs under the simulator with exactly one injected item failure at a drawn item, worker and schedule point; the oracle demands that the entry point raises to its caller within 600 virtual seconds (serial mode is the control); returning normally is 'swallowed', not raising in time or a proven livelock is 'hang'.",
    "design_ref": "DESIGN.md 5.10",
    "note": "trusted: the multiprocessing model (exit codes, daemon workers, terminate); fairness after the fault",
    "technique": "deterministic simulation with exception / I/O-error injection at a seeded (item, worker, schedule point); bounded-liveness oracle in virtual time",
}
BUDGET = {"quick": (2500, 60), "thorough": (280000, 1500)}
REQUIRED_PROBES = {"quick": ["injected_exception"], "thorough": ["injected_exception", "injected_io_error", "injected_unreadable_input", "injected_real_code_failure"]}
CHUNK = 25
LIVENESS_BOUND = 600.0

STAGES = [stages.WalkStage, stages.LeafVisitStage, stages.TransformStage, stages.U8TransformStage]
from . import multi_stages
STAGES += [multi_stages.MultiTanStage, multi_stages.MultiWcsStage, stages.RealCascadeStage, stages.RealSamplingStage, stages.F16TransformStage]


def pick_stage(ch):
    weights = [6, 5, 4, 2, 1, 1, 2, 1, 2][:len(STAGES)]
    tot = sum(weights)
    v = ch.draw(tot, kind="stage")
    acc = 0
    for cls, w in zip(STAGES, weights):
        acc += w
        if v < acc:
            return cls
    return STAGES[0]


class IoFault(object):
    """Raise OSError(EIO) from the tile read/write seam for the k-th tile I/O
    operation performed inside a worker process."""

    def __init__(self, sim, k):
        self.sim = sim
        self.k = k
        self.n = 0
        self.fired = False

    def __call__(self, kind, rel):
        from ..kernel import current_task
        t = current_task()
        if t is None or not t.name.startswith("w") or self.fired:
            return
        n = self.n
        self.n += 1
        if n == self.k:
            self.fired = True
            sim = self.sim
            sim.fault("injected_io_error")
            sim.fault("injected_exception")
            sim.event("inject-io", kind, rel)
            sim.injected_at = (sim.step, sim.now)
            sim.vtime_cap = sim.now + LIVENESS_BOUND + 10.0
            sim.stop_faults()
            raise OSError(errno.EIO, "injected I/O error on tile %s (%s)" % (kind, rel))


class LoaderFault(object):
    """A file-server hiccup beneath toasty's tile reader: from the k-th load of an existing tile file inside a worker
    on, every load of *that* file fails with the drawn errno for the next `persist` attempts."""

    def __init__(self, sim, k, err, persist):
        self.sim = sim
        self.k = k
        self.err = err
        self.persist = persist
        self.n = 0
        self.path = None
        self.left = 0

    arm_at_read = False     # arm when toasty's tile reader is entered (then stat fails too) instead of at the load itself

    def on_read_image(self, path):
        if self.arm_at_read and self.path is None:
            self._maybe_arm(path)

    def on_stat(self, path):
        from ..kernel import current_task
        t = current_task()
        if self.arm_at_read and self.path is not None and path == self.path and self.left > 0 and t is not None and t.name == self.victim:
            raise OSError(self.err, "injected %s on stat of %s" % (errno.errorcode.get(self.err, self.err), self.sim.rel(path)))

    def _maybe_arm(self, path):
        from ..kernel import current_task
        t = current_task()
        if t is None or not t.name.startswith("w") or not os.path.exists(path):
            return
        n = self.n
        self.n += 1
        if n != self.k:
            return
        sim = self.sim
        self.path = path
        self.victim = t.name
        self.left = self.persist
        sim.fault("injected_io_error")
        sim.fault("injected_file_server_error_%s" % errno.errorcode.get(self.err, self.err))
        sim.event("inject-read", sim.rel(path), self.err)
        sim.injected_at = (sim.step, sim.now)
        sim.vtime_cap = sim.now + LIVENESS_BOUND + 10.0
        sim.stop_faults()

    def __call__(self, path):
        from ..kernel import current_task
        t = current_task()
        if t is None or not t.name.startswith("w"):
            return
        sim = self.sim
        if self.path is None and self.arm_at_read:
            return
        if self.path is None:
            if getattr(self, "need_existing", True) and not os.path.exists(path):
                return
            n = self.n
            self.n += 1
            if n != self.k:
                return
            self.path = path
            self.victim = t.name
            self.left = self.persist
            sim.fault("injected_io_error")
            sim.fault("injected_%s_error_%s" % ("loader" if getattr(self, "need_existing", True) else "writer", errno.errorcode.get(self.err, self.err)))
            sim.event("inject-load", sim.rel(path), self.err)
            sim.injected_at = (sim.step, sim.now)
            sim.vtime_cap = sim.now + LIVENESS_BOUND + 10.0
            sim.stop_faults()
        # the hiccup hits ONE item: only the worker that ran into it keeps seeing it (C19 quantifies over a failure at a
        # single item; a tile that no worker can read kills every worker that touches it, which is a different story)
        if path == self.path and self.left > 0 and t.name == self.victim:
            self.left -= 1
            raise OSError(self.err, "injected %s while reading %s" % (errno.errorcode.get(self.err, self.err), sim.rel(path)))


LOADER_ERRNOS = (errno.EIO, errno.ESTALE, errno.EAGAIN, errno.ETIMEDOUT, errno.EACCES, errno.ENOMEM)


def run_intrinsic(ch, env, stage, workers, res, label):
    """A failure that is part of the workload itself - an input image or tile file that cannot be read, a sampler
    that raises - rather than injected through the recording callback: wherever toasty hits it (a worker, the
    producer, the real per-item code), the operation must fail visibly, in serial mode and in every parallel mode."""
    res["config"].update(fault=label)
    res["extra"]["fault_" + label.split(" ")[0]] = 1
    d = env.fresh_dir()
    stage.populate(d)
    rec = stages.Recorder(None)
    rec.serial = []
    try:
        stage.run(1, rec, d)
    except Exception:
        pass
    else:
        if getattr(stage, "must_fail_serial", False):
            res["violation"] = viol(PROP, "swallowed", "serial %s returned normally although %s (%s)" % (stage.name, label, stage.describe()), "serial:" + stage.name)
            res["digest"] = "serial"
            res["nontrivial"] = True
            return res
        # the truncation did not make this input unreadable (e.g. only padding was cut): nothing to test
        res["digest"] = "serial-mode-did-not-fail"
        res["extra"]["not_injected"] = 1
        return res
    d = env.fresh_dir()
    stage.populate(d)
    sim = Sim(ch, step_cap=80000)
    sim.rootdir = d
    sim.stop_faults()
    res["config"].update(common.sched_config(sim))
    rec = stages.Recorder(sim, 0)

    def main():
        stage.run(workers, rec, d)

    main_task = sim.run(main)
    common.sim_summary(sim, res)
    res["nontrivial"] = True
    key = "injected_unreadable_input" if label == "unreadable-input" else "injected_real_code_failure"
    res.setdefault("faults", {})[key] = 1
    what = "%s(parallel=%d)" % (stage.name, workers)
    tag = stage.name + (":unreadable-input" if label == "unreadable-input" else "")
    if sim.status == "returned":
        if main_task.exc is None:
            res["violation"] = viol(PROP, "swallowed", "%s returned normally although %s makes the serial mode raise; %s; worker stderr: %s" % (
                what, label, stage.describe(), (sim.stderr[0][-300:] if sim.stderr else "none")), tag)
        return res
    res["violation"] = viol(PROP, "hang", "%s neither raised nor returned (%s; %s): simulator status %s at step %d; blocked: %s" % (
        what, label, stage.describe(), sim.status, sim.step, [(t.name, t.waiting_op) for t in sim.tasks if t.state == "blocked"][:8]), tag)
    return res


def run_one(ch, env):
    cls = pick_stage(ch)
    stage = cls(ch)
    workers = common.draw_workers(ch, parallel_only=True)
    nyield = ch.draw(3, kind="cb_yields")
    expected = stage.expected()
    n_items = sum(expected.values())
    res = {"config": dict(stage.describe(), workers=workers, cb_yields=nyield, n_items=n_items),
           "extra": {"stage_" + stage.name: 1, "workers_%d" % workers: 1}}
    needs_dir = getattr(stage, "needs_dir", False)
    common.draw_progress(ch, res)
    if getattr(stage, "expected_from_serial", False):
        d = env.fresh_dir()
        stage.populate(d)
        rec = stages.Recorder(None)
        rec.serial = []
        stage.run(1, rec, d)
        n_items = sum(1 for e in rec.serial if e[0] == "start")
    if n_items == 0:
        res["digest"] = "no-items"
        res["extra"]["no_items"] = 1
        return res
    if getattr(stage, "intrinsic_fault", False):
        return run_intrinsic(ch, env, stage, workers, res, "corrupt tile / failing sampler in the real per-item code")
    input_mode = hasattr(stage, "col") and ch.draw(3, kind="corrupt_input") == 2
    if input_mode:
        stage.corrupt_input = ch.draw(len(stage.col.rects), kind="which_input")
        res["config"].update(corrupt_input=stage.corrupt_input)
        return run_intrinsic(ch, env, stage, workers, res, "unreadable-input")
    io_mode = needs_dir and getattr(stage, "io_faults", True) and ch.draw(2, kind="fault_kind") == 1
    k = ch.draw(n_items, kind="fail_at")
    err = stages.ERROR_KINDS[ch.draw(len(stages.ERROR_KINDS), kind="error_kind")]
    fail_after = (0.0, 0.0, 0.7, 3.0, 25.0)[ch.draw(5, kind="fail_after")]
    res["config"].update(fail_at=k, fault="io" if io_mode else "callback", error=err.__name__, fail_after_s=fail_after)
    if fail_after:
        res["extra"]["late_failure"] = 1
    res["extra"]["error_" + err.__name__] = 1

    # serial control: must raise
    d = None
    if needs_dir:
        d = env.fresh_dir()
        stage.populate(d)
    if not io_mode:
        rec = stages.Recorder(None, fail_at=k, error_cls=err)
        rec.serial = []
        try:
            stage.run(1, rec, d)
        except stages.InjectedError:
            pass
        except Exception as e:
            import traceback
            res["harness_error"] = "serial control raised something else: %r\n%s" % (e, traceback.format_exc())
            return res
        else:
            res["violation"] = viol(PROP, "swallowed", "serial %s returned normally although item #%d raised" % (stage.name, k), "serial:" + stage.name)
            res["digest"] = "serial"
            return res
        if needs_dir:
            d = env.fresh_dir()
            stage.populate(d)

    sim = Sim(ch, step_cap=80000)
    sim.rootdir = d
    sim.injected_at = None
    res["config"].update(common.sched_config(sim))
    if io_mode:
        rec = stages.Recorder(sim, nyield)
        lvl = ch.draw(3, kind="io_fault_level")
        if lvl == 2:
            # the storage gives out in the middle of writing a tile (inside Image.save, beneath PyramidIO.write_image)
            werr = LOADER_ERRNOS[ch.draw(len(LOADER_ERRNOS), kind="writer_errno")]
            lf = LoaderFault(sim, k, werr, 1)
            lf.need_existing = False
            sim.write_fault = lf
            res["config"].update(fault="tile-writer", writer_errno=errno.errorcode.get(werr))
        elif lvl == 1:
            lerr = LOADER_ERRNOS[ch.draw(len(LOADER_ERRNOS), kind="loader_errno")]
            persist = (1, 3, 8, 1000)[ch.draw(4, kind="loader_fault_attempts")]
            sim.load_fault = LoaderFault(sim, k, lerr, persist)
            # half of the time the hiccup starts when toasty's tile reader is entered: stat / exists of the file fail too
            sim.load_fault.arm_at_read = ch.draw(2, kind="hiccup_from_reader_entry") == 1
            res["config"].update(fault="tile-loader", from_reader_entry=sim.load_fault.arm_at_read, loader_errno=errno.errorcode.get(lerr), loader_fault_attempts=persist)
        else:
            sim.io_fault = IoFault(sim, k)
    else:
        rec = stages.Recorder(sim, nyield, fail_at=k, error_cls=err, fail_after=fail_after)

    def main():
        stage.run(workers, rec, d)

    main_task = sim.run(main)
    common.sim_summary(sim, res)
    what = "%s(parallel=%d)" % (stage.name, workers)
    if sim.injected_at is None:
        # the I/O fault index lay beyond the I/O operations workers performed: nothing injected
        res["nontrivial"] = False
        res["extra"]["not_injected"] = 1
        if sim.status != "returned" or main_task.exc is not None:
            res["harness_error"] = "fault-free run did not return normally: %s %r" % (sim.status, main_task.exc)
        return res
    res["nontrivial"] = True
    inj_step, inj_now = sim.injected_at
    if sim.status == "returned":
        if main_task.exc is None:
            res["violation"] = viol(PROP, "swallowed", "%s returned normally although processing of item #%d (%s) raised in a worker; worker stderr: %s" % (
                what, k, rec.injected, (sim.stderr[0][-300:] if sim.stderr else "")), stage.name)
            return res
        if sim.now - inj_now > LIVENESS_BOUND:
            res["violation"] = viol(PROP, "hang", "%s raised only %.0f virtual seconds after the failure (bound %d)" % (what, sim.now - inj_now, LIVENESS_BOUND), stage.name)
        return res
    res["violation"] = viol(PROP, "hang", "%s neither raised nor returned after item #%d (%s) failed at step %d: simulator status %s at step %d, %.0f virtual seconds after the failure; blocked: %s" % (
        what, k, rec.injected, inj_step, sim.status, sim.step, sim.now - inj_now,
        [(t.name, t.waiting_op) for t in sim.tasks if t.state == "blocked"][:8]), stage.name)
    return res
