"""C14 - FITS pyramids carry the leaves' true data range up to the root and the
WTML image set.  Shares the cascade workload / simulator runs of c02.py but
generates FITS pyramids only and evaluates the data-range oracle.  DESIGN.md 5.2."""

from . import c02

PROP = "C14"
LEVEL = "exploration"
RULE = ("one run = one generated FITS pyramid (F32/F64/I16/I32 leaves written by toasty, sparse population, NaN patches, "
        "all-NaN leaves never written, stale parents) cascaded serially or with 2/3/5 workers under one seeded schedule, half of "
        "them through Builder.cascade; for every tile above the start level float32(DATAMIN/DATAMAX) must equal the min/max finite "
        "value over all leaf tiles beneath it, and the image-set range must equal the root's; non-trivial / distinct as for C02")
COMPONENTS = c02.COMPONENTS
ASSUMPTIONS = [
    "leaf tiles are written by toasty's own PyramidIO.write_image (so their headers carry their own range)",
    "leaf data contain no infinities",
    "the multiprocessing model is faithful",
]
MANIFEST = {
    "text": "seeded exploration over FITS cascades (serial and parallel under the simulator): the DATAMIN/DATAMAX header of every produced tile is compared (float32) with the true range of the leaf tiles beneath it, and Builder.cascade's image-set range with the root's. Sampling, not proof.",
    "design_ref": "DESIGN.md 5.2",
    "note": "trusted: astropy header round trip; the multiprocessing model",
    "technique": "deterministic simulation: seeded schedule search of the parallel FITS cascade; oracle = leaf-range reference over the recorded tile tree",
}
BUDGET = {"quick": (400, 75), "thorough": (90000, 1500)}
REQUIRED_PROBES = {"quick": ["parallel_runs", "sparse_parent"], "thorough": ["parallel_runs", "sparse_parent", "with_filter"]}
CHUNK = 5
SELFTEST_EVERY = 25


def run_one(ch, env):
    return c02.run_core(ch, env, PROP)
