"""C06 - TOAST sampling writes the sampler's values at each tile's own pixel
centres; independent of the worker count.  The real sample_layer (clobber) and
sample_layer_filtered (locked update) under the scheduler, incl. two concurrent
updating sampling operations on one pyramid.  DESIGN.md 5.4."""

import math
import os

import numpy as np

from toasty import toast as ttoast
from toasty.image import Image
from toasty.pyramid import Pos, PyramidIO
from toasty.toast import ToastCoordinateSystem

from ..kernel import Sim
from . import common
from .common import viol
from .c02 import list_tiles

PROP = "C06"
LEVEL = "exploration"
RULE = ("one run = one sampling job: depth 0-2 (3 rarely), astronomical / planetary coordinates, clobber (sample_layer) or update "
        "(sample_layer_filtered with a drawn tile filter) mode, scalar F32/F64 or RGB analytic sampler owned by the harness, default "
        "format npy/fits/png with an optional same-parity format override, optional prior tiles from an earlier sampling, 1-4 workers, "
        "in update mode optionally two concurrent sampling operations with complementary defined regions; run under one seeded "
        "schedule; every tile file is compared bit-exactly with sampler(coords(tile)); non-trivial = >= 2 tasks enabled at some step "
        "or >= 2 tiles; distinct = sha1 of (scheduler trace + workload)")
COMPONENTS = {
    "real": ["toast.sample_layer / sample_layer_filtered / ToastSampler.visit_callback", "Builder.toast_base (one run in three)", "Pyramid.visit_leaves (serial + parallel) + workers",
             "PyramidIO.write_image / update_image + filelock.SoftFileLock", "Image.save/load (numpy, astropy.io.fits, PIL)", "real files on tmpfs"],
    "stub": ["multiprocessing.Queue/Event/Process (model)", "clock", "file write atomicity model",
             "trusted geometry: toast.create_single_tile + toast_tile_get_coords give the expected pixel coordinates (their correctness is C04/C05, not C06)"],
}
ASSUMPTIONS = [
    "create_single_tile / toast_tile_get_coords are trusted as the definition of a tile's pixel centres (C04/C05 are not claimed)",
    "depth 0: the whole-sphere tile's pixel (i, j) is the centre of the level-8 tile (j, i), i.e. the four level-1 tiles sampled at 128 pixels in quadrants (x, y)",
    "format overrides stay within the vertical parity of the default format (no caller in the repository mixes parities)",
    "concurrent updating sampling operations have disjoint defined regions (otherwise the result is legitimately order dependent)",
]
MANIFEST = {
    "text": "seeded exploration: the real TOAST sampling entry points under the simulator (worker / feeder / lock interleavings, torn writes, two concurrent updaters of one pyramid) with a harness-owned analytic sampler; oracle: file set equals the expected leaf set and every tile equals sampler(coords(tile)) bit-exactly in display orientation (rows reversed for FITS), merged with prior tiles in update mode; same for every worker count. Sampling, not proof.",
    "design_ref": "DESIGN.md 5.4",
    "note": "trusted: tile geometry functions; the multiprocessing and file-write models",
    "technique": "deterministic simulation: seeded schedule search of parallel / concurrent TOAST sampling; pixel-exact oracle from an analytic sampler and trusted tile geometry",
}
BUDGET = {"quick": (320, 75), "thorough": (25000, 1500)}
REQUIRED_PROBES = {"quick": ["mode_update", "mode_clobber", "prior_state", "depth0"],
                   "thorough": ["mode_update", "mode_clobber", "prior_state", "depth0", "concurrent_samplers", "lock_contended", "format_override", "via_builder"]}
CHUNK = 4
SELFTEST_EVERY = 40
FRESH_SELFTEST = 4

_coords_cache = {}


def ref_coords(pos, coordsys):
    key = (tuple(pos), coordsys.value)
    v = _coords_cache.get(key)
    if v is None:
        if pos.n == 0:
            lon = np.empty((256, 256))
            lat = np.empty((256, 256))
            for qy in (0, 1):
                for qx in (0, 1):
                    t = ttoast.create_single_tile(Pos(1, qx, qy), coordsys)
                    from toasty._libtoasty import subsample
                    slon, slat = subsample(t.corners[0], t.corners[1], t.corners[2], t.corners[3], 128, t.increasing)
                    lon[qy * 128:(qy + 1) * 128, qx * 128:(qx + 1) * 128] = slon
                    lat[qy * 128:(qy + 1) * 128, qx * 128:(qx + 1) * 128] = slat
            v = (lon, lat)
        else:
            v = ttoast.toast_tile_get_coords(ttoast.create_single_tile(pos, coordsys))
        if len(_coords_cache) > 400:
            _coords_cache.clear()
        _coords_cache[key] = v
    return v


class Sampler(object):
    """Analytic sampler f(lon, lat).  kind: 'F32' / 'F64' / 'RGB'.  `region` selects
    where a scalar sampler is defined (NaN elsewhere): None = everywhere,
    ('lat_gt', v), ('lat_le', v), ('lon_band', k)."""

    def __init__(self, kind, a, b, c, region=None, view=0):
        self.kind = kind
        self.a, self.b, self.c = a, b, c
        self.region = region
        self.view = view        # 1: hand out a read-only array; 2: a non-contiguous, non-owning view

    def __call__(self, lon, lat):
        out = self._values(lon, lat)
        if self.view == 1:
            out.setflags(write=False)
        elif self.view == 2:
            big = np.empty((out.shape[0], out.shape[1] * 2) + out.shape[2:], dtype=out.dtype)
            big[:, ::2] = out
            out = big[:, ::2]
        elif self.view == 3 and out.dtype.itemsize > 1:
            out = out.astype(out.dtype.newbyteorder(">"))      # what indexing into FITS data gives: big-endian samples
        return out

    def _values(self, lon, lat):
        base = self.a * np.sin(lon * 3.0) + self.b * lat + self.c + np.cos(lat * 5.0 + lon)
        if self.kind == "U8":
            return np.floor((np.sin(lon * self.a) * 0.5 + 0.5) * 250.0 + 1.0).astype(np.uint8)
        if self.kind in ("I16", "I32"):
            top = 30000.0 if self.kind == "I16" else 2.0e9
            return np.floor((np.sin(lon * self.a + lat * self.b) * 0.5 + 0.5) * top + 1.0).astype(np.int16 if self.kind == "I16" else np.int32)
        if self.kind == "RGBA":
            # colour with an alpha plane: alpha 0 = undefined (whatever the colour bytes say); colour bytes may be 0 in
            # defined pixels (black sky, blue ocean) and alpha may be anything from 1 to 255 there
            out = np.empty(lon.shape + (4,), dtype=np.uint8)
            out[..., 0] = np.where(np.floor(lon * 2.0).astype(np.int64) % 2 == 0, 0, np.floor((np.sin(lon * self.a) * 0.5 + 0.5) * 255.0)).astype(np.uint8)
            out[..., 1] = np.where(lat > 0.3, 0, np.floor((lat / math.pi + 0.5) * 255.0)).astype(np.uint8)
            out[..., 2] = np.floor((np.cos(lon * self.b + lat) * 0.5 + 0.5) * 255.0).astype(np.uint8)
            alpha = np.full(lon.shape, 255, dtype=np.uint8)
            if int(self.a) % 2 == 0:
                alpha = (1 + np.floor((np.sin(lat * 7.0) * 0.5 + 0.5) * 254.0)).astype(np.uint8)
            r = self.region
            if r is not None:
                if r[0] == "lat_gt":
                    alpha[~(lat > r[1])] = 0
                elif r[0] == "lat_le":
                    alpha[lat > r[1]] = 0
                elif r[0] == "lon_band":
                    alpha[np.floor(lon * r[1]).astype(np.int64) % 2 == 0] = 0
            out[..., 3] = alpha
            return out
        if self.kind == "RGB":
            out = np.empty(lon.shape + (3,), dtype=np.uint8)
            out[..., 0] = np.floor((np.sin(lon * self.a) * 0.5 + 0.5) * 255.0).astype(np.uint8)
            out[..., 1] = np.floor((lat / math.pi + 0.5) * 255.0).astype(np.uint8)
            out[..., 2] = np.floor((np.cos(lon * self.b + lat) * 0.5 + 0.5) * 255.0).astype(np.uint8)
            return out
        out = base.astype(np.float32 if self.kind == "F32" else np.float64)
        r = self.region
        if r is not None:
            if r[0] == "lat_gt":
                out[~(lat > r[1])] = np.nan
            elif r[0] == "lat_le":
                out[lat > r[1]] = np.nan
            elif r[0] == "lon_band":
                out[np.floor(lon * r[1]).astype(np.int64) % 2 == 0] = np.nan
        return out


def merge_expected(old, new):
    """Update semantics in display orientation: defined new pixels replace; RGB always replaces."""
    if old is None:
        if new.ndim == 3 and new.shape[2] == 4:
            old = np.zeros_like(new)        # a fresh maskable RGBA buffer
        else:
            return new
    if new.dtype.kind == "f":
        return np.where(np.isnan(new), old, new)
    if new.ndim == 3 and new.shape[2] == 4:
        out = old.copy()
        ok = new[..., 3] != 0
        out[ok] = new[ok]
        return out
    return new


def run_one(ch, env):
    update = ch.draw(2, kind="mode") == 1
    depth = (1, 0, 2, 1, 0, 2, 1, 3)[ch.draw(8, kind="depth")]
    if depth == 3 and ch.draw(4, kind="depth3_rare") != 0:
        depth = 1
    # now and then a filtered layer with several hundred tiles (depth 5): size-dependent paths of the leaf visit
    big = ch.draw(300 if common.thorough() else 90, kind="large_sampling") == 0
    if big:
        update, depth = True, 5
    coordsys = (ToastCoordinateSystem.ASTRONOMICAL, ToastCoordinateSystem.PLANETARY)[ch.draw(2, kind="coordsys")]
    kind = ("F32", "F64", "RGB", "U8", "RGBA", "I16", "I32")[ch.draw(7, kind="sampler_kind")]
    if big:
        kind = "F32"
    if kind in ("U8", "I16", "I32") and update:
        kind = "F32"        # integer scalar samplers: clobbering mode only (integer updates keep the larger value)
    view = ch.draw(4, kind="sampler_output_view")
    if kind == "U8":
        default_fmt = "npy"
    elif kind in ("I16", "I32"):
        default_fmt = ("npy", "fits")[ch.draw(2, kind="fmt")]
    elif kind in ("RGB", "RGBA"):
        default_fmt = ("png", "npy")[ch.draw(2, kind="fmt")]
    else:
        default_fmt = ("npy", "fits")[ch.draw(2, kind="fmt")]
    override = None
    if not update and ch.draw(4, kind="format_override") == 3:
        # same vertical parity only
        override = {"png": "npy", "npy": "npy" if kind not in ("RGB", "RGBA") else "png", "fits": "fits"}[default_fmt]
    fmt = override or default_fmt
    workers = (2, 1, 3, 4)[ch.draw(4, kind="workers")]
    prior = ch.draw(3, kind="prior_state") == 2 and not big
    concurrent = update and kind != "RGB" and ch.draw(2, kind="concurrent") == 1 and not big

    cfg = None
    if big:
        m = (3, 5, 11)[ch.draw(3, kind="large_reject_mod")]
        rejects = {Pos(5, x, y) for x in range(32) for y in range(32) if (x * 7 + y * 13) % m == 0}
        rejects.add(Pos(1, ch.draw(2, kind="large_reject_x"), ch.draw(2, kind="large_reject_y")))
        rejects.add(Pos(2, ch.draw(4, kind="large_reject_x2"), ch.draw(4, kind="large_reject_y2")))
        cfg = common.PyrConfig("filtered", 5, None, rejects)
        leaves = cfg.reachable_leaves()
    elif update:
        cfg = common.PyrConfig("filtered", depth, None, set())
        p_acc = (0.85, 0.6, 1.0)[ch.draw(3, kind="p_accept")]
        for p in common.all_positions_dfs(depth, lo=1):
            if ch.draw(2, p0=p_acc, kind="filter_bit"):
                cfg.rejects.add(p)
        leaves = cfg.reachable_leaves()
    else:
        leaves = [Pos(depth, x, y) for y in range(2 ** depth) for x in range(2 ** depth)]

    a = 1.0 + ch.draw(5, kind="sampler_a")
    b = 0.5 + ch.draw(4, kind="sampler_b")
    lat0 = (0.0, 0.4, -0.7)[ch.draw(3, kind="lat0")]
    if concurrent:
        samplers = [Sampler(kind, a, b, 3.0, ("lat_gt", lat0), view), Sampler(kind, a + 1, b, -2.0, ("lat_le", lat0), view)]
    elif update and kind != "RGB":
        region = (None, ("lat_gt", lat0), ("lon_band", 4.0))[ch.draw(3, kind="region")]
        samplers = [Sampler(kind, a, b, 3.0, region, view)]
    else:
        samplers = [Sampler(kind, a, b, 3.0, None, view)]
    prior_sampler = Sampler(kind, a + 2.5, b + 1.0, 11.0, ("lon_band", 3.0) if kind != "RGB" and ch.draw(2, kind="prior_holes") else None)

    d = env.fresh_dir()
    pio = PyramidIO(d, default_format=default_fmt)
    bottom_up = fmt == "fits"
    prior_tiles = {}
    if prior:
        # an earlier sampling left tiles (at all leaf positions of this depth), written with the real writer
        for p in [Pos(depth, x, y) for y in range(2 ** depth) for x in range(2 ** depth)]:
            if ch.draw(4, kind="prior_tile") != 3:
                lon, lat = ref_coords(p, coordsys)
                arr = prior_sampler(lon, lat)
                if arr.dtype.kind == "f" and np.all(np.isnan(arr)):
                    continue
                if arr.ndim == 3 and arr.shape[2] == 4 and np.all(arr[..., 3] == 0):
                    continue
                if update and arr.ndim == 3 and arr.shape[2] == 3:
                    arr = np.dstack([arr, np.full(arr.shape[:2], 255, dtype=np.uint8)])
                prior_tiles[p] = arr
                pio.write_image(p, Image.from_array(arr[::-1] if bottom_up else arr), format=override)

    res = {"config": {"mode": "update" if update else "clobber", "depth": depth, "coordsys": coordsys.value, "sampler": kind,
                      "default_format": default_fmt, "format_override": override, "workers": workers, "prior_tiles": len(prior_tiles),
                      "concurrent_samplers": len(samplers), "n_leaves": len(leaves), "via_builder": None,
                      "filter_rejects": sorted(tuple(p) for p in cfg.rejects)[:20] if cfg else None},
           "extra": {"mode_update" if update else "mode_clobber": 1, "depth_%d" % depth: 1, "workers_%d" % workers: 1, "fmt_" + fmt: 1},
           "probes": {"mode_update": int(update), "mode_clobber": int(not update), "prior_state": int(bool(prior_tiles)), "depth0": int(depth == 0),
                      "concurrent_samplers": int(concurrent), "format_override": int(override is not None)}}

    # one run in three first samples another layer (other depth and coordinate system) in the same process: state that
    # toasty keeps between sampling operations (caches keyed too coarsely) then shows up in the run under test
    warm = ch.draw(3, kind="warm_up") == 2 and not big
    res["probes"]["warm_up_sampling"] = int(warm)
    if warm:
        import tempfile
        other = ToastCoordinateSystem.PLANETARY if coordsys == ToastCoordinateSystem.ASTRONOMICAL else ToastCoordinateSystem.ASTRONOMICAL
        # same layer in the other coordinate system, or another layer in the same one
        wdepth, wsys = ((depth, other), (1 if depth != 1 else 2, coordsys), (depth, other))[ch.draw(3, kind="warm_kind")]
        wdir = os.path.join(d, "warmup")
        ttoast.sample_layer(PyramidIO(wdir, default_format=default_fmt), Sampler(kind, 2.0, 1.0, 0.0), wdepth, coordsys=wsys, parallel=1)
        import shutil
        shutil.rmtree(wdir, ignore_errors=True)

    common.draw_progress(ch, res)
    sim = Sim(ch, step_cap=600000 if big else 80000)
    res["probes"]["large_sampling"] = int(big)
    sim.rootdir = d
    sim.write_yields = (2, 1, 0)[ch.draw(3, kind="write_yields")]
    res["config"].update(common.sched_config(sim))
    import multiprocessing as mp

    via_builder = ch.draw(3, kind="via_builder") == 2 and override is None

    def one_job(pio, sampler):
        if via_builder:
            # the Builder route used by the command-line tools: is_planet selects the coordinate system
            from toasty.builder import Builder
            kw = dict({"parallel": workers}, **common.pkw())
            if update:
                rejects = cfg.rejects
                kw["tile_filter"] = lambda t: t.pos not in rejects
            Builder(pio).toast_base(sampler, depth, is_planet=(coordsys == ToastCoordinateSystem.PLANETARY), **kw)
        elif update:
            rejects = cfg.rejects
            ttoast.sample_layer_filtered(pio, lambda t: t.pos not in rejects, sampler, depth, coordsys=coordsys, parallel=workers, **common.pkw())
        else:
            ttoast.sample_layer(pio, sampler, depth, coordsys=coordsys, format=override, parallel=workers, **common.pkw())

    res["config"]["via_builder"] = via_builder
    res["probes"]["via_builder"] = int(via_builder)
    procs = []

    def main():
        if len(samplers) == 1:
            one_job(pio, samplers[0])
        else:
            for s in samplers:
                p = mp.Process(target=one_job, args=(pio, s))
                p.start()
                procs.append(p)
            for p in procs:
                p.join()

    main_task = sim.run(main)
    common.sim_summary(sim, res)
    import hashlib
    res["digest"] = hashlib.sha1((res["digest"] + repr(sorted(res["config"].items(), key=str))).encode()).hexdigest()
    res["nontrivial"] = bool(res.get("nontrivial")) or len(leaves) >= 2
    what = "sample_layer%s(depth=%d, %s, %s/%s, parallel=%d%s)" % ("_filtered" if update else "", depth, coordsys.value, kind, fmt, workers,
                                                                  ", 2 concurrent operations" if concurrent else "")
    if sim.status != "returned":
        res["violation"] = viol(PROP, "does-not-return", "%s did not return: %s at step %d; blocked %s" % (what, sim.status, sim.step, [(t.name, t.waiting_op) for t in sim.tasks if t.state == "blocked"][:6]))
        return res
    excs = [(t.name, t.exc, t.exc_tb) for t in sim.tasks if t.exc is not None]
    if excs:
        name, e, tb = excs[0]
        res["violation"] = viol(PROP, "raised", "%s: %s raised %r\n%s" % (what, name, e, (tb or "")[-900:]), "depth0" if depth == 0 else "")
        return res
    if sim.stderr:
        res["violation"] = viol(PROP, "worker-traceback", "%s: a worker failed: %s" % (what, sim.stderr[0][-900:]))
        return res

    # expected tiles in display orientation
    expected = {}
    leafset = set(leaves)
    for p in [Pos(depth, x, y) for y in range(2 ** depth) for x in range(2 ** depth)]:
        old = prior_tiles.get(p)
        if p in leafset:
            lon, lat = ref_coords(p, coordsys)
            if update:
                cur = old
                for s in samplers:
                    new = s(lon, lat)
                    if new.ndim == 3 and new.shape[2] == 3:
                        new = np.dstack([new, np.full(new.shape[:2], 255, dtype=np.uint8)])
                    cur = merge_expected(cur, new)
                val = cur
            else:
                val = samplers[0](lon, lat)
        else:
            val = old
        if val is None or (val.dtype.kind == "f" and np.all(np.isnan(val))):
            continue
        if val.ndim == 3 and val.shape[2] == 4 and np.all(val[..., 3] == 0):
            continue
        expected[p] = val
    from .c02 import all_positions
    on_disk = list_tiles(d, fmt, pio=pio, candidates=all_positions(depth))
    if on_disk != set(expected):
        res["violation"] = viol(PROP, "tile-set-differs", "%s: tile files differ from the expected leaf set: missing %s, unexpected %s" % (
            what, sorted(tuple(p) for p in set(expected) - on_disk)[:6], sorted(tuple(p) for p in on_disk - set(expected))[:6]))
        return res
    for p in sorted(expected, key=tuple):
        got = pio.read_image(p, format=fmt).asarray()
        want = expected[p][::-1] if bottom_up else expected[p]
        # an opaque RGBA tile and the RGB tile with the same colours are the same picture
        if got.ndim == 3 and want.ndim == 3 and {got.shape[2], want.shape[2]} == {3, 4}:
            four = got if got.shape[2] == 4 else want
            if np.all(four[..., 3] == 255):
                got, want = got[..., :3], want[..., :3]
        same = got.shape == want.shape and (np.array_equal(got.astype(np.float64), want.astype(np.float64), equal_nan=True) if want.dtype.kind == "f" else np.array_equal(got, want))
        if not same:
            flipped = got.shape == want.shape and (np.array_equal(got[::-1].astype(np.float64), want.astype(np.float64), equal_nan=True) if want.dtype.kind == "f" else np.array_equal(got[::-1], want))
            res["violation"] = viol(PROP, "wrong-pixels", "%s: tile %s does not hold the sampler's values at its own pixel centres%s (shape %s vs %s, dtype %s vs %s)" % (
                what, tuple(p), " - rows are in reverse order" if flipped else "", got.shape, want.shape, got.dtype, want.dtype))
            return res
        if want.dtype.kind == "f" and got.dtype.itemsize != want.dtype.itemsize:
            res["violation"] = viol(PROP, "wrong-dtype", "%s: tile %s stored as %s, sampler produced %s" % (what, tuple(p), got.dtype, want.dtype))
            return res
    return res
