"""Shared workload generators and reference models for the pyramid stages."""

from toasty.pyramid import Pos, Pyramid, pos_children, pos_parent

from ..kernel import Sim


def all_positions_dfs(depth, lo=1):
    """Positions at levels lo..depth in a fixed (depth-first, children-first) order."""
    out = []

    def rec(p):
        if p.n < depth:
            for c in pos_children(p):
                rec(c)
        if p.n >= lo:
            out.append(p)

    rec(Pos(0, 0, 0))
    return out


def is_desc_or_self(p, apex):
    if p.n < apex.n:
        return False
    s = p.n - apex.n
    return (p.x >> s) == apex.x and (p.y >> s) == apex.y


def path_from_level1(p):
    out = []
    while p.n >= 1:
        out.append(p)
        p = Pos(p.n - 1, p.x >> 1, p.y >> 1)
    return out


class PyrConfig(object):
    """A generated pyramid configuration."""

    KINDS = ("generic", "toast", "filtered")

    def __init__(self, kind, depth, apex, rejects, accept=None):
        self.kind = kind
        self.depth = depth
        self.apex = apex            # Pos or None
        self.rejects = rejects      # set of Pos rejected by the user filter
        self.accept = accept        # kind 'deep': the filter accepts exactly these positions
        # how the object under test came to be: 'direct' = straight from the constructor; 'copy' = a shallow copy of a
        # template of which another copy was first restricted to `sibling_apex`; 'deepcopy' = a deep copy of the template
        self.origin = "direct"
        self.sibling_apex = None

    def describe(self):
        return {
            "kind": self.kind,
            "depth": self.depth,
            "apex": list(self.apex) if self.apex is not None else None,
            "filter_rejects": sorted(list(p) for p in self.rejects)[:40],
            "n_rejects": len(self.rejects),
            "n_accepted": len(self.accept) if self.accept is not None else None,
            "origin": self.origin,
            "sibling_apex": list(self.sibling_apex) if self.sibling_apex is not None else None,
        }

    def build(self, coordsys=None):
        kw = {} if coordsys is None else {"coordsys": coordsys}
        if self.kind == "generic":
            p = Pyramid.new_generic(self.depth)
        elif self.kind == "toast":
            p = Pyramid.new_toast(self.depth, **kw)
        elif self.kind == "deep":
            accept = self.accept
            p = Pyramid.new_toast_filtered(self.depth, lambda t: t.pos in accept, **kw)
        else:
            rejects = self.rejects
            p = Pyramid.new_toast_filtered(self.depth, lambda t: t.pos not in rejects, **kw)
        if self.origin == "copy":
            import copy
            sibling = copy.copy(p)
            sibling.subpyramid(self.sibling_apex)       # a different object: must not affect the one under test
            p = copy.copy(p)
        elif self.origin == "deepcopy":
            import copy
            p = copy.deepcopy(p)
        if self.apex is not None:
            p = p.subpyramid(self.apex)
        return p

    # -- reference model (independent of pyramid.py's traversal code) -------

    def passes(self, pos):
        if self.accept is not None:
            return pos in self.accept
        return pos not in self.rejects

    def reachable_leaves(self):
        d = self.depth
        if self.kind == "generic" and self.apex is not None:
            # all descendants of the apex at the leaf level, enumerated directly (the pyramid may be deep)
            a, s = self.apex, d - self.apex.n
            return [Pos(d, (a.x << s) + i, (a.y << s) + j) for i in range(2 ** s) for j in range(2 ** s)]
        if self.accept is not None:
            apex = self.apex if self.apex is not None else Pos(0, 0, 0)
            return [p for p in self.accept if p.n == d and is_desc_or_self(p, apex)
                    and all(q in self.accept for q in path_from_level1(p))]
        apex = self.apex if self.apex is not None else Pos(0, 0, 0)
        out = []
        for x in range(2 ** d):
            for y in range(2 ** d):
                leaf = Pos(d, x, y)
                if not is_desc_or_self(leaf, apex):
                    continue
                if all(self.passes(q) for q in path_from_level1(leaf)):
                    out.append(leaf)
        return out

    def live_parents(self):
        """Non-leaf positions at or below the apex that have a reachable leaf beneath."""
        apex = self.apex if self.apex is not None else Pos(0, 0, 0)
        out = set()
        for leaf in self.reachable_leaves():
            p = leaf
            while p.n > apex.n:
                p = Pos(p.n - 1, p.x >> 1, p.y >> 1)
                out.add(p)
        return out


def draw_origin(ch, cfg):
    o = ch.draw(6, kind="object_origin")
    if o == 4:
        cfg.origin = "deepcopy"
    elif o == 5:
        cfg.origin = "copy"
        n = ch.draw(min(cfg.depth, 3) + 1, kind="sibling_apex_n")
        cfg.sibling_apex = Pos(n, ch.draw(2 ** n, kind="sibling_apex_x"), ch.draw(2 ** n, kind="sibling_apex_y"))
    return cfg


def thorough():
    import os
    return os.environ.get("TOASTYSIM_TIER") == "thorough"


def draw_deep_pyramid(ch):
    """A deep (depth 10-12) TOAST pyramid whose filter accepts only the paths to 1-3 leaves (plus a few stray
    siblings without children): few tiles, but the code paths toasty takes for depth > 9."""
    depth = (10, 11, 12, 6, 7, 8, 9)[ch.draw(7, kind="deep_depth")]     # also the mid-size depths between 'small' and 'deep'
    if ch.draw(3, kind="deep_generic") == 2:
        # a generic (unfiltered) deep pyramid restricted to a small sub-pyramid
        n = depth - ch.draw(4, kind="apex_up")
        return draw_origin(ch, PyrConfig("generic", depth, Pos(n, ch.draw(2 ** n, kind="apex_x"), ch.draw(2 ** n, kind="apex_y")), set()))
    accept = set()
    first = None
    for _ in range(1 + ch.draw(3, kind="deep_nleaves")):
        p = Pos(depth, ch.draw(2 ** depth, kind="leaf_x"), ch.draw(2 ** depth, kind="leaf_y"))
        if first is None:
            first = p
        for q in path_from_level1(p):
            accept.add(q)
    for _ in range(ch.draw(4, kind="deep_strays")):
        lvl = 1 + ch.draw(depth, kind="stray_level")
        q = Pos(lvl, first.x >> (depth - lvl), first.y >> (depth - lvl))
        accept.add(Pos(lvl, q.x ^ 1, q.y))      # a sibling on the first leaf's path: accepted, children not
    apex = None
    if ch.draw(2, p0=0.6, kind="use_apex"):
        n = ch.draw(depth + 1, kind="apex_n")
        apex = Pos(n, first.x >> (depth - n), first.y >> (depth - n))
    return draw_origin(ch, PyrConfig("deep", depth, apex, set(), accept=accept))


def draw_pyramid(ch, max_generic=4, max_toast=3, kinds=(0, 1, 2), min_depth=0, allow_deep=False):
    if thorough():
        max_generic += 1
        max_toast += 1
    if allow_deep and ch.draw(12, kind="deep_pyramid") == 11:
        return draw_deep_pyramid(ch)
    kind = PyrConfig.KINDS[kinds[ch.draw(len(kinds), kind="pyr_kind")]]
    maxd = max_generic if kind == "generic" else max_toast
    depth = min_depth + ch.draw(maxd - min_depth + 1, kind="depth")
    rejects = set()
    if kind == "filtered":
        p_acc = (0.85, 0.6, 0.95, 0.3)[ch.draw(4, kind="p_accept")]
        for p in all_positions_dfs(depth, lo=1):
            if ch.draw(2, p0=p_acc, kind="filter_bit"):
                rejects.add(p)
    apex = None
    if ch.draw(2, p0=0.5, kind="use_apex"):
        n = ch.draw(depth + 1, kind="apex_n")
        apex = Pos(n, ch.draw(2 ** n, kind="apex_x"), ch.draw(2 ** n, kind="apex_y"))
    return draw_origin(ch, PyrConfig(kind, depth, apex, rejects))


# progress reporting is a configuration of every entry point (every command-line tool turns it on): 0 = off,
# 1 = on with log-like output (stdout not a terminal), 2 = on with terminal-like output (a Jupyter kernel: JPY_PARENT_PID set)
PROGRESS = {}


def draw_progress(ch, res=None):
    import os
    mode = (0, 0, 1, 2)[ch.draw(4, kind="progress_reporting")]
    PROGRESS.clear()
    if mode:
        PROGRESS["cli_progress"] = True
    if mode == 2:
        os.environ["JPY_PARENT_PID"] = "1"      # removed again by the engine when the run ends
    else:
        os.environ.pop("JPY_PARENT_PID", None)
    if res is not None:
        res.setdefault("config", {})["progress_reporting"] = ("off", "log-like", "terminal-like")[mode]
        res.setdefault("extra", {})["progress_%d" % mode] = 1
    return mode


def pkw():
    return dict(PROGRESS)


WORKER_CHOICES = (2, 3, 1, 4, 6)


VIA_ENV = [None]    # worker count handed over as parallel=None + SLURM_NPROCS=<n> (how a batch job gets it)


def draw_workers(ch, parallel_only=False):
    import os
    opts = tuple(w for w in WORKER_CHOICES if not (parallel_only and w == 1))
    w = opts[ch.draw(len(opts), kind="workers")]
    if ch.draw(16, kind="many_workers") == 15:
        w = (9, 16)[ch.draw(2, kind="many_workers_n")]      # more workers than most item sets have items
    VIA_ENV[0] = None
    os.environ.pop("SLURM_NPROCS", None)
    if ch.draw(10, kind="workers_via_env") == 9:
        VIA_ENV[0] = w
        os.environ["SLURM_NPROCS"] = str(w)     # removed again by the engine when the run ends
    return w


def parg(w):
    """The `parallel=` argument for worker count w: None when this run hands the count over through the environment."""
    return None if (VIA_ENV[0] is not None and w == VIA_ENV[0]) else w


def sim_summary(sim, res):
    if VIA_ENV[0] is not None:
        res.setdefault("extra", {})["workers_via_SLURM_NPROCS"] = 1
    res["digest"] = sim.digest()
    # head-room of the hang detectors (a run that *returned* after using most of a budget is a warning sign)
    if sim.status == "returned":
        res["step_frac"] = max(res.get("step_frac", 0.0), sim.step / float(sim.step_cap))
        res["idle_frac"] = max(res.get("idle_frac", 0.0), getattr(sim, "idle_frac", 0.0))
    res["steps"] = res.get("steps", 0) + sim.step
    res["vtime"] = res.get("vtime", 0.0) + sim.now
    res["leaked"] = res.get("leaked", 0) + sim.leaked
    for k, v in sim.probes.items():
        res.setdefault("probes", {})[k] = res.get("probes", {}).get(k, 0) + v
    for k, v in sim.faults.items():
        res.setdefault("faults", {})[k] = res.get("faults", {}).get(k, 0) + v
    res["trace"] = sim.trace[:60]
    res["nontrivial"] = bool(res.get("nontrivial")) or sim.concurrent_steps > 0 or bool(sim.faults)
    return res


def sched_config(sim):
    return {"strategy": sim.strategy, "p_stay": sim.p_stay, "p_early": sim.p_early}


def viol(prop, kind, detail, extra_sig=""):
    sig = "%s:%s%s" % (prop, kind, (":" + extra_sig) if extra_sig else "")
    return {"kind": kind, "sig": sig, "detail": str(detail)[:1500]}
