"""Multi-image study tiling as C03 / C19 stages: the real MultiTanProcessor.tile
and MultiWcsProcessor.tile (with a recording stand-in passed through its public
reproject_function parameter) on generated FITS collections."""

import os
from collections import Counter
from contextlib import contextmanager

import numpy as np

from toasty import collection
from toasty.builder import Builder
from toasty.pyramid import Pos, PyramidIO

from . import fitsgen


class RecordingPIO(PyramidIO):
    """PyramidIO whose update_image reports begin / end of every per-tile update
    to the (shared) recorder.  Everything else is the real class."""

    _rec = None

    @contextmanager
    def update_image(self, pos, **kw):
        key = tuple(pos)
        self._rec.begin(key)
        with PyramidIO.update_image(self, pos, **kw) as basis:
            yield basis
        self._rec.end(key)


def corrupt_one(stage, d):
    """C19's 'unreadable input' fault: one input file keeps its header but loses the tail of its data, so that
    it passes the header scan and fails when its pixels are read (wherever toasty reads them)."""
    k = getattr(stage, "corrupt_input", None)
    if k is None:
        return
    path = stage.col.paths[k % len(stage.col.paths)]
    size = os.path.getsize(path)
    with open(path, "r+b") as f:
        f.truncate(max(2880, size - 2880 * max(1, (size // 2880) // 2)))


def geometric_expected(col):
    """Tiles overlapped by each input's rectangle in the centred power-of-two
    tiling of the assembled mosaic (independent of StudyTiling)."""
    n = max(col.W, col.H, 1)
    p2 = 256
    while p2 < n:
        p2 *= 2
    levels = 0
    while 256 * (2 ** levels) < p2:
        levels += 1
    gx0 = (p2 - col.W) // 2
    gy0 = (p2 - col.H) // 2
    out = Counter()
    for r in col.rects:
        x0 = gx0 + r["c0"] - col.C0
        y0 = gy0 + r["r0"] - col.R0
        for ty in range(y0 // 256, (y0 + r["h"] - 1) // 256 + 1):
            for tx in range(x0 // 256, (x0 + r["w"] - 1) // 256 + 1):
                out[(levels, tx, ty)] += 1
    return out


class MultiTanStage(object):
    name = "multi_tan"
    needs_dir = True

    def __init__(self, ch):
        self.col = fitsgen.draw_collection(ch, max_images=5, sizes=(60, 200, 300, 520))
        self.fmt = ("fits", "npy")[ch.draw(2, kind="tile_format")]

    def describe(self):
        d = fitsgen.describe(self.col)
        d["stage"] = self.name
        d["tile_format"] = self.fmt
        return d

    def expected(self):
        return geometric_expected(self.col)

    def populate(self, d):
        fitsgen.write_collection(self.col, os.path.join(d, "in"))
        corrupt_one(self, d)

    def run(self, parallel, rec, env_dir=None):
        from toasty.multi_tan import MultiTanProcessor
        coll = collection.load(self.col.paths)
        pio = RecordingPIO(os.path.join(env_dir, "out"), default_format=self.fmt)
        pio._rec = rec
        b = Builder(pio)
        proc = MultiTanProcessor(coll)
        proc.compute_global_pixelization(b)
        proc.tile(pio, parallel=parallel)


def standin_reproject(input_data, output_projection=None, shape_out=None, return_footprint=False, **kw):
    """Recording-free stand-in for reproject.reproject_interp: fills the output
    chunk with the input's identifying value (its first finite pixel)."""
    arr, _wcs = input_data
    fin = arr[np.isfinite(arr)]
    v = fin[0] if fin.size else np.nan
    return np.full(shape_out, v, dtype=np.float64)


class MultiWcsStage(object):
    name = "multi_wcs"
    needs_dir = True
    expected_from_serial = True

    def __init__(self, ch):
        self.col = fitsgen.draw_collection(ch, max_images=4, sizes=(60, 200, 300))
        # the WCS route needs real image extents: no rotation extremes, modest scale
        self.col.theta = (0.0, 30.0)[ch.draw(2, kind="rotation2")]
        self.col.scale = 1.0 / 1024
        self.col.dec = (20.0, -45.5)[ch.draw(2, kind="dec2")]
        self.fmt = ("fits", "npy")[ch.draw(2, kind="tile_format")]

    def describe(self):
        d = fitsgen.describe(self.col)
        d["stage"] = self.name
        d["tile_format"] = self.fmt
        return d

    def expected(self):
        return Counter()

    def populate(self, d):
        fitsgen.write_collection(self.col, os.path.join(d, "in"))
        corrupt_one(self, d)

    def run(self, parallel, rec, env_dir=None):
        from toasty.multi_wcs import MultiWcsProcessor
        coll = collection.load(self.col.paths)
        pio = RecordingPIO(os.path.join(env_dir, "out"), default_format=self.fmt)
        pio._rec = rec
        b = Builder(pio)
        proc = MultiWcsProcessor(coll)
        proc.compute_global_pixelization(b)
        proc.tile(pio, standin_reproject, parallel=parallel)
