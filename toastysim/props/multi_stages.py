"""Multi-image study tiling as C03 / C19 stages: the real MultiTanProcessor.tile
and MultiWcsProcessor.tile (with a recording stand-in passed through its public
reproject_function parameter) on generated FITS collections."""

import os
from collections import Counter
from contextlib import contextmanager

import numpy as np

from toasty import collection
from toasty.builder import Builder
from toasty.pyramid import Pos, PyramidIO

from . import common, fitsgen


class RecordingPIO(PyramidIO):
    """PyramidIO whose update_image reports begin / end of every per-tile update
    to the (shared) recorder.  Everything else is the real class."""

    _rec = None

    @contextmanager
    def update_image(self, pos, **kw):
        key = tuple(pos)
        self._rec.begin(key)
        with PyramidIO.update_image(self, pos, **kw) as basis:
            yield basis
        self._rec.end(key)


def corrupt_one(stage, d):
    """C19's 'unreadable input' fault: one input file keeps its header but loses the tail of its data, so that
    it passes the header scan and fails when its pixels are read (wherever toasty reads them)."""
    k = getattr(stage, "corrupt_input", None)
    if k is None:
        return
    path = stage.col.paths[k % len(stage.col.paths)]
    size = os.path.getsize(path)
    with open(path, "r+b") as f:
        f.truncate(max(2880, size - 2880 * max(1, (size // 2880) // 2)))


def geometric_expected(col):
    """Tiles overlapped by each input's rectangle in the centred power-of-two
    tiling of the assembled mosaic (independent of StudyTiling)."""
    n = max(col.W, col.H, 1)
    p2 = 256
    while p2 < n:
        p2 *= 2
    levels = 0
    while 256 * (2 ** levels) < p2:
        levels += 1
    gx0 = (p2 - col.W) // 2
    gy0 = (p2 - col.H) // 2
    out = Counter()
    for r in col.rects:
        x0 = gx0 + r["c0"] - col.C0
        y0 = gy0 + r["r0"] - col.R0
        for ty in range(y0 // 256, (y0 + r["h"] - 1) // 256 + 1):
            for tx in range(x0 // 256, (x0 + r["w"] - 1) // 256 + 1):
                out[(levels, tx, ty)] += 1
    return out


UPDATED = []        # (identifying value of the source image, pixels copied) per update_into_maskable_buffer call


@contextmanager
def recording_updates():
    """Record, per source image, how many pixels toasty copies into tile buffers (class-level wrapper: simulated
    worker processes are threads of this interpreter)."""
    from toasty.image import Image
    orig = Image.update_into_maskable_buffer
    ident = {}

    def wrapper(self, buffer, iy_idx, ix_idx, by_idx, bx_idx):
        k = id(self)
        if k not in ident:
            a = np.asarray(self.asarray())
            fin = a[np.isfinite(a)] if a.dtype.kind == "f" else a.ravel()
            ident[k] = (float(fin[0]) if fin.size else float("nan"), self)       # keep the object alive: ids stay unique
        h = len(range(*iy_idx.indices(self.height)))
        w = len(range(*ix_idx.indices(self.width)))
        UPDATED.append((repr(ident[k][0]), h * w))
        return orig(self, buffer, iy_idx, ix_idx, by_idx, bx_idx)

    del UPDATED[:]
    Image.update_into_maskable_buffer = wrapper
    try:
        yield
    finally:
        Image.update_into_maskable_buffer = orig


def tile_contents(outdir, fmt):
    import hashlib
    from toasty.image import ImageLoader
    out = {}
    for root, _dirs, files in os.walk(outdir):
        for f in files:
            if f.endswith("." + fmt):
                a = np.ascontiguousarray(ImageLoader().load_path(os.path.join(root, f)).asarray())
                out[os.path.relpath(os.path.join(root, f), outdir)] = hashlib.sha1(repr((a.shape, a.dtype.str)).encode() + a.tobytes()).hexdigest()
    return out


class MultiTanStage(object):
    name = "multi_tan"
    needs_dir = True
    # how an input is cut up while it is copied into tiles is toasty's business: the history oracle compares the *set*
    # of tiles updated per input overlap; exactly-once is decided per input image by the number of pixels copied, and
    # the result by the content of the output tiles (overlapping inputs agree in value), both against the serial run
    set_only = True

    def after_serial(self, d):
        self.reference = (Counter(), tile_contents(os.path.join(d, "out"), self.fmt))
        for v, n in self.last_updated:
            self.reference[0][v] += n

    def check_outputs(self, d):
        ref = getattr(self, "reference", None)
        if ref is None:
            return None
        got = Counter()
        for v, n in self.last_updated:
            got[v] += n
        if got != ref[0]:
            bad = sorted(v for v in set(got) | set(ref[0]) if got.get(v, 0) != ref[0].get(v, 0))[:3]
            return "pixels copied into tiles per input image differ from the serial mode (value, parallel, serial): %s" % (
                [(v, got.get(v, 0), ref[0].get(v, 0)) for v in bad],)
        cont = tile_contents(os.path.join(d, "out"), self.fmt)
        if cont != ref[1]:
            diff = sorted(k for k in set(cont) | set(ref[1]) if cont.get(k) != ref[1].get(k))[:4]
            return "output tiles differ from the serial mode: %s" % (diff,)
        return None

    def __init__(self, ch):
        self.col = fitsgen.draw_collection(ch, max_images=5, sizes=(60, 200, 300, 520))
        self.fmt = ("fits", "npy")[ch.draw(2, kind="tile_format")]

    def describe(self):
        d = fitsgen.describe(self.col)
        d["stage"] = self.name
        d["tile_format"] = self.fmt
        return d

    def expected(self):
        return geometric_expected(self.col)

    def populate(self, d):
        fitsgen.write_collection(self.col, os.path.join(d, "in"))
        corrupt_one(self, d)

    def run(self, parallel, rec, env_dir=None):
        with recording_updates():
            try:
                return self._run(parallel, rec, env_dir)
            finally:
                self.last_updated = list(UPDATED)

    def _run(self, parallel, rec, env_dir):
        from toasty.multi_tan import MultiTanProcessor
        coll = fitsgen.load_collection(self.col)
        pio = RecordingPIO(os.path.join(env_dir, "out"), default_format=self.fmt)
        pio._rec = rec
        b = Builder(pio)
        proc = MultiTanProcessor(coll)
        proc.compute_global_pixelization(b)
        proc.tile(pio, parallel=common.parg(parallel), **common.pkw())


def standin_reproject(input_data, output_projection=None, shape_out=None, return_footprint=False, **kw):
    """Recording-free stand-in for reproject.reproject_interp: fills the output
    chunk with the input's identifying value (its first finite pixel)."""
    arr, _wcs = input_data
    fin = arr[np.isfinite(arr)]
    v = fin[0] if fin.size else np.nan
    # (the caller's extra keyword arguments must reach the function in every mode: they are part of the record)
    REPROJECTED.append((repr(float(v)) + repr(sorted(kw.items())), int(shape_out[0]) * int(shape_out[1])))
    return np.full(shape_out, v, dtype=np.float64)


# (identifying value of the input, pixels reprojected) per call of the stand-in; simulated worker processes are threads
# of this interpreter, so one list sees them all
REPROJECTED = []


def defined_masks(outdir, fmt):
    """tile -> sha1 of its defined-pixel mask (which pixels received data does not depend on the order in which
    overlapping inputs were applied, nor on how an input was cut into chunks)."""
    import hashlib
    out = {}
    ext = "." + fmt
    for root, _dirs, files in os.walk(outdir):
        for f in files:
            if f.endswith(ext):
                from toasty.image import ImageLoader
                img = ImageLoader().load_path(os.path.join(root, f))
                a = img.asarray()
                out[os.path.relpath(os.path.join(root, f), outdir)] = hashlib.sha1(np.isnan(a).tobytes()).hexdigest()
    return out


class MultiWcsStage(object):
    name = "multi_wcs"
    needs_dir = True
    expected_from_serial = True
    # how an input is cut into reprojection chunks is toasty's business (and may differ between modes): the history
    # oracle compares the *set* of tiles updated; exactly-once is decided per input image by the number of pixels
    # reprojected for it, and completeness by the defined-pixel masks of the output tiles, both against the serial run
    set_only = True

    def __init__(self, ch):
        self.col = fitsgen.draw_collection(ch, max_images=4, sizes=(60, 200, 300))
        # the WCS route needs real image extents: no rotation extremes, modest scale
        self.col.theta = (0.0, 30.0)[ch.draw(2, kind="rotation2")]
        self.col.scale = 1.0 / 1024
        self.col.dec = (20.0, -45.5)[ch.draw(2, kind="dec2")]
        self.fmt = ("fits", "npy")[ch.draw(2, kind="tile_format")]
        # tuning knob: the reprojection chunk size (rows per chunk = MAXIMUM_CHUNK_SIZE // width); the shipped value
        # (128 Mpixel) never splits a small image, the small ones force several chunks per input
        self.chunk_pixels = (None, 3000, 12000, 700)[ch.draw(4, kind="chunk_size")]
        # extra keyword arguments a caller hands to tile() for the reprojection function (e.g. order="nearest-neighbor")
        self.reproject_kwargs = ({}, {}, {"order": "nearest-neighbor"}, {"order": 1, "roundtrip_coords": False})[ch.draw(4, kind="reproject_kwargs")]

    def describe(self):
        d = fitsgen.describe(self.col)
        d["stage"] = self.name
        d["tile_format"] = self.fmt
        d["chunk_pixels"] = self.chunk_pixels
        d["reproject_kwargs"] = sorted(self.reproject_kwargs)
        return d

    def expected(self):
        return Counter()

    def populate(self, d):
        fitsgen.write_collection(self.col, os.path.join(d, "in"))
        corrupt_one(self, d)

    def run(self, parallel, rec, env_dir=None):
        from toasty import multi_wcs
        from toasty.multi_wcs import MultiWcsProcessor
        shipped = multi_wcs.MAXIMUM_CHUNK_SIZE
        if self.chunk_pixels is not None:
            multi_wcs.MAXIMUM_CHUNK_SIZE = self.chunk_pixels
        try:
            return self._run(parallel, rec, env_dir)
        finally:
            multi_wcs.MAXIMUM_CHUNK_SIZE = shipped

    def after_serial(self, d):
        self.reference = (Counter(), defined_masks(os.path.join(d, "out"), self.fmt))
        for v, n in self.last_reprojected:
            self.reference[0][v] += n

    def check_outputs(self, d):
        ref = getattr(self, "reference", None)
        if ref is None:
            return None
        got = Counter()
        for v, n in self.last_reprojected:
            got[v] += n
        if got != ref[0]:
            bad = sorted(v for v in set(got) | set(ref[0]) if got.get(v, 0) != ref[0].get(v, 0))[:3]
            return "pixels reprojected per input image differ from the serial mode: %s" % (
                [(v, got.get(v, 0), ref[0].get(v, 0)) for v in bad],)
        masks = defined_masks(os.path.join(d, "out"), self.fmt)
        if masks != ref[1]:
            diff = sorted(k for k in set(masks) | set(ref[1]) if masks.get(k) != ref[1].get(k))[:4]
            return "output tiles do not have the same defined pixels as in the serial mode: %s" % (diff,)
        return None

    def _run(self, parallel, rec, env_dir):
        from toasty.multi_wcs import MultiWcsProcessor
        del REPROJECTED[:]
        try:
            return self._run2(parallel, rec, env_dir)
        finally:
            self.last_reprojected = list(REPROJECTED)

    def _run2(self, parallel, rec, env_dir):
        from toasty.multi_wcs import MultiWcsProcessor
        coll = fitsgen.load_collection(self.col)
        pio = RecordingPIO(os.path.join(env_dir, "out"), default_format=self.fmt)
        pio._rec = rec
        b = Builder(pio)
        proc = MultiWcsProcessor(coll)
        proc.compute_global_pixelization(b)
        proc.tile(pio, standin_reproject, parallel=common.parg(parallel), **dict(common.pkw(), **self.reproject_kwargs))
