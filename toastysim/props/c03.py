"""C03 - parallel stages hand every work item to exactly one worker and then
terminate.  DESIGN.md 5.3."""

from collections import Counter

from ..kernel import Sim
from . import common, stages
from .common import viol

PROP = "C03"
LEVEL = "exploration"
RULE = ("one run = one generated item set (leaf visits over generic/TOAST/filtered/sub-pyramid pyramids, pyramid-wide "
        "transforms incl. the real u8_to_rgb on real tiles, multi-TAN / multi-WCS image collections) x worker count x one "
        "complete schedule of producer, queue feeder, workers, receive timeouts and the shutdown handshake drawn from the "
        "seeded choice sequence; non-trivial = >= 2 tasks enabled at some step or an early timeout fired; distinct = "
        "distinct sha1 of the scheduler trace")
COMPONENTS = {
    "real": ["Pyramid.visit_leaves/_visit_leaves_parallel/_mp_visit_worker", "transform._do_a_transform/_transform_parallel/_transform_mp_worker",
             "transform.u8_to_rgb / f16x3_to_rgb (public entry points) + PyramidIO + PIL", "MultiTanProcessor.tile/_mp_tile_worker", "MultiWcsProcessor.tile/_mp_tile_worker",
             "PyramidIO.update_image + filelock.SoftFileLock (multi-image stages)", "PyramidReductionIterator", "toasty.toast generators"],
    "stub": ["multiprocessing.Queue/Event/Process (model)", "clock", "reproject function of the multi-WCS stage (recording stand-in passed through its public parameter)"],
}
ASSUMPTIONS = [
    "SimQueue/SimEvent/SimProcess faithfully model CPython 3.12 multiprocessing on Linux (fork)",
    "pre-emption only at IPC / clock / tile-file / lock-file primitives",
    "reliable pipes; no SIGKILL of workers",
]
MANIFEST = {
    "text": "seeded exploration of schedules of the producer / feeder / worker / shutdown handshake of every fan-out stage, run as real code under the simulator; oracle over the recorded history: multiset of processed items equals the serial multiset (and the reference leaf set, with each leaf's own tile geometry), every item finished and every worker exited before the entry point returned, and it returned. Sampling, not proof.",
    "design_ref": "DESIGN.md 5.3",
    "note": "trusted: the multiprocessing model; pre-emption only at primitives; reliable pipes",
    "technique": "deterministic simulation: seeded schedule search over producer/feeder/worker/shutdown interleavings with early receive timeouts and bounded queues; exactly-once history oracle",
}
BUDGET = {"quick": (3000, 60), "thorough": (300000, 1500)}
REQUIRED_PROBES = {
    "quick": ["early_timeout", "put_blocked_full", "get_empty_while_item_in_feeder"],
    "thorough": ["early_timeout", "put_blocked_full", "get_empty_while_item_in_feeder", "close_with_items_buffered",
                 "feeder_flush_after_close", "get_empty_on_rlock"],
}
CHUNK = 30

STAGES = [stages.LeafVisitStage, stages.TransformStage, stages.U8TransformStage, stages.F16TransformStage]
try:
    from . import multi_stages
    STAGES += [multi_stages.MultiTanStage, multi_stages.MultiWcsStage]
    HAVE_MULTI = True
except ImportError:
    pass
STAGE_P = None


def pick_stage(ch):
    # cheap stages most of the time; stages doing real tile I/O less often
    weights = [6, 5, 1, 1, 1, 1][:len(STAGES)]
    tot = sum(weights)
    v = ch.draw(tot, kind="stage")
    acc = 0
    for cls, w in zip(STAGES, weights):
        acc += w
        if v < acc:
            return cls
    return STAGES[0]


def history_violation(hist, expected, what, set_only=False):
    starts = Counter(e[1] for e in hist if e[0] == "start")
    ends = Counter(e[1] for e in hist if e[0] == "end")
    for k, c in starts.items():
        if k not in expected:
            return ("item-not-in-serial-set", "%s processed item %s which the serial mode does not process" % (what, k))
        if c != expected[k] and not set_only:
            return ("item-repeated", "%s processed item %s %d times (serial: %d)" % (what, k, c, expected[k]))
    missing = [k for k in expected if starts.get(k, 0) < (1 if set_only else expected[k])]
    if missing:
        return ("item-lost", "%s never processed %d item(s), e.g. %s" % (what, len(missing), sorted(missing)[:4]))
    for k, c in starts.items():
        if ends.get(k, 0) != c:
            return ("return-before-processed", "%s returned while item %s was still being processed" % (what, k))
    for e in hist:
        if e[0] in ("geom-mismatch", "bad-buf", "bad-item"):
            return (e[0], "%s delivered item %s with wrong payload (%s)" % (what, e[1:], e[0]))
    return None


def run_one(ch, env):
    cls = pick_stage(ch)
    stages.LARGE_OK[0] = True
    try:
        stage = cls(ch)
    finally:
        stages.LARGE_OK[0] = False
    workers = common.draw_workers(ch, parallel_only=True)
    if getattr(stage, "large", False):
        workers = min(workers, 3)
    nyield = ch.draw(3, kind="cb_yields")
    expected = stage.expected()
    res = {"config": dict(stage.describe(), workers=workers, cb_yields=nyield, n_items=sum(expected.values())),
           "extra": {"stage_" + stage.name: 1, "workers_%d" % workers: 1}}
    needs_dir = getattr(stage, "needs_dir", False)
    common.draw_progress(ch, res)

    # serial control
    rec = stages.Recorder(None)
    rec.serial = []
    d = None
    if needs_dir:
        d = env.fresh_dir()
        stage.populate(d)
    try:
        stage.run(1, rec, d)
    except Exception as e:
        import traceback
        res["harness_error"] = "serial control raised: %r\n%s" % (e, traceback.format_exc())
        return res
    hist = [(e[0], tuple(e[1])) if e[0] in ("start", "end") else e for e in rec.serial]
    if getattr(stage, "expected_from_serial", False):
        expected = Counter(k for kind, k in hist if kind == "start")
        res["config"]["n_items"] = sum(expected.values())
    set_only = getattr(stage, "set_only", False)
    v = history_violation(hist, expected, "serial " + stage.name, set_only)
    if v is not None:
        res["violation"] = viol(PROP, v[0], v[1], "serial")
        res["digest"] = "serial"
        return res

    if hasattr(stage, "after_serial"):
        stage.after_serial(d)
    if needs_dir:
        d = env.fresh_dir()
        stage.populate(d)
    sim = Sim(ch, step_cap=12000000 if getattr(stage, "huge", False) else (400000 if getattr(stage, "large", False) else 60000))
    if getattr(stage, "huge", False):
        res["extra"]["huge_leaf_set"] = 1
    if getattr(stage, "large", False):
        res["extra"]["large_item_set"] = 1
    sim.rootdir = d
    res["config"].update(common.sched_config(sim))
    rec = stages.Recorder(sim, nyield)

    def main():
        stage.run(workers, rec, d)

    main_task = sim.run(main)
    common.sim_summary(sim, res)
    what = "%s(parallel=%d)" % (stage.name, workers)
    if sim.status != "returned":
        res["violation"] = viol(PROP, "does-not-return", "%s did not return: simulator status %s at step %d, t=%.0fs; blocked: %s" % (
            what, sim.status, sim.step, sim.now, [(t.name, t.waiting_op) for t in sim.tasks if t.state == "blocked"][:8]))
        return res
    if main_task.exc is not None:
        res["violation"] = viol(PROP, "raised", "%s raised %r\n%s" % (what, main_task.exc, main_task.exc_tb))
        return res
    hist = []
    for e in sim.events:
        if e[2] in ("start", "end"):
            hist.append((e[2], tuple(e[3:])))
        else:
            hist.append(tuple(e[2:]))
    v = history_violation(hist, expected, what, set_only)
    if v is not None:
        res["violation"] = viol(PROP, v[0], v[1])
        return res
    alive = [n for n, st, op in sim.at_finish if n.startswith("w") and st != "done"]
    if alive:
        res["violation"] = viol(PROP, "worker-alive-at-return", "%s returned while worker process(es) %s had not exited" % (what, alive))
        return res
    if sim.stderr:
        res["violation"] = viol(PROP, "worker-traceback", "%s: a worker printed a traceback: %s" % (what, sim.stderr[0][-600:]))
        return res
    if hasattr(stage, "check_outputs"):
        msg = stage.check_outputs(d)
        if msg:
            res["violation"] = viol(PROP, "wrong-output", "%s: %s" % (what, msg))
    return res
