"""C10 - concurrent updates of one tile never lose a contribution.
Linearizability of PyramidIO.update_image against a sequential model, with the
real filelock.SoftFileLock running under the scheduler.  DESIGN.md 5.6."""

import glob
import os

import numpy as np

from toasty.image import Image, ImageMode
from toasty.pyramid import Pos, PyramidIO

from ..kernel import Sim
from . import common
from .common import viol

PROP = "C10"
LEVEL = "exploration"
RULE = ("one run = 2-5 simulated processes each performing 1-3 read-modify-write updates (real PyramidIO.update_image, real "
        "SoftFileLock, non-atomic tile writes) of 1-2 shared tile positions with drawn rectangles / mask patterns / mode / format, "
        "under one complete schedule of lock-create, poll-sleep, read, truncate, partial write, write, unlink steps drawn from the "
        "seeded choice sequence; non-trivial = >= 2 tasks enabled at some step; distinct = distinct sha1 of the scheduler trace")
COMPONENTS = {
    "real": ["PyramidIO.update_image/read_image/write_image", "filelock 4.0.0 SoftFileLock (acquire/poll/release)", "Image.update_into_maskable_buffer",
             "Image.save / ImageLoader.load_path (numpy, astropy.io.fits, PIL)", "real files on tmpfs"],
    "stub": ["multiprocessing.Process (threads + deep-copied arguments)", "clock (time.sleep / perf_counter)",
             "file write atomicity model: truncate|unlink -> prefix -> rest with scheduling points"],
}
ASSUMPTIONS = [
    "all updaters share one pid (threads), so filelock's stale-lock breaking by pid liveness never triggers; no updater dies holding a lock",
    "O_CREAT|O_EXCL is atomic on the file system (real tmpfs)",
    "a tile write becomes visible as truncate/unlink, then a prefix, then the rest",
]
MANIFEST = {
    "text": "seeded exploration of interleavings of several updaters running the real update_image (with the real SoftFileLock and a non-atomic file-write model) under the simulator; the recorded history (acquire / read / write / release stamped with the global step) is checked for linearizability against a sequential model: the final tile equals the sequential application of all updates in lock-acquisition order, every read made while holding the lock returns exactly the model state, critical sections on one tile never overlap, no lock file is left. Sampling, not proof.",
    "design_ref": "DESIGN.md 5.6",
    "note": "trusted: O_EXCL atomicity of the real file system; the write-visibility model; one shared pid",
    "technique": "deterministic simulation: seeded interleaving search over lock/read/write steps of concurrent updaters; linearizability check of the recorded history against a sequential model",
}
BUDGET = {"quick": (1500, 60), "thorough": (300000, 1500)}
# which lock file guards which tile must not depend on the interpreter (hash seed, pid): independently started
# processes - separate `toasty` invocations, cluster jobs - must agree on it or they do not exclude each other
XPROC_VIOLATION = ("lock-identity-differs-between-interpreters",
                   "the lock file used for a tile differs between two interpreters running the same updates: independently started processes would not exclude each other")
REQUIRED_PROBES = {
    "quick": ["lock_contended", "acquired_after_poll", "scheduled_during_torn_write"],
    "thorough": ["lock_contended", "acquired_after_poll", "scheduled_during_torn_write", "three_waiting"],
}
CHUNK = 10

COMBOS = [("npy", ImageMode.F32), ("fits", ImageMode.F32), ("png", ImageMode.RGBA), ("npy", ImageMode.RGBA),
          ("npy", ImageMode.I16), ("fits", ImageMode.F64), ("fits", ImageMode.I16), ("npy", ImageMode.RGB)]


def make_source(mode, uid, mask_kind):
    """A 256x256 source image whose defined pixels carry a value unique to `uid`."""
    yy, xx = np.mgrid[0:256, 0:256]
    if mask_kind == 0:
        undefined = np.zeros((256, 256), dtype=bool)
    elif mask_kind == 1:
        undefined = (xx // 16) % 3 == 0
    elif mask_kind == 3 and mode in (ImageMode.F32, ImageMode.F64, ImageMode.RGBA):
        undefined = np.ones((256, 256), dtype=bool)     # an update that contributes nothing (entirely undefined source)
    else:
        undefined = (yy + xx) % 5 == 0
    if mode in (ImageMode.F32, ImageMode.F64):
        dt = np.float32 if mode == ImageMode.F32 else np.float64
        arr = np.full((256, 256), float(uid), dtype=dt)
        arr += (xx % 7).astype(dt) / 16.0
        if uid % 2 == 0:
            arr[(yy + 3 * xx) % 41 == 0] = np.inf       # saturated samples are defined values
        arr[undefined] = np.nan
    elif mode == ImageMode.RGBA:
        arr = np.zeros((256, 256, 4), dtype=np.uint8)
        arr[..., 0] = uid
        arr[..., 1] = xx % 251
        arr[..., 2] = yy % 251
        arr[..., 3] = 255
        arr[undefined] = (9, 9, 9, 0)      # transparent pixels with junk colour bytes
    elif mode == ImageMode.RGB:
        arr = np.zeros((256, 256, 3), dtype=np.uint8)
        arr[..., 0] = uid
        arr[..., 1] = xx % 251
        arr[..., 2] = yy % 251
    elif mode == ImageMode.I16:
        arr = np.full((256, 256), 100 * uid, dtype=np.int16)
        arr += (xx % 7).astype(np.int16)
        arr[undefined] = 0
    else:
        raise ValueError(mode)
    return Image.from_array(arr)


def arrays_equal(a, b):
    a = np.asarray(a)
    b = np.asarray(b)
    if a.shape != b.shape:
        return False
    if a.dtype.kind == "f":
        return bool(np.array_equal(a.astype(np.float64), b.astype(np.float64), equal_nan=True))
    return bool(np.array_equal(a, b))


def run_one(ch, env):
    fmt, mode = COMBOS[ch.draw(len(COMBOS), kind="combo")]
    npos = 1 + ch.draw(2, p0=0.7, kind="npos")
    # mostly level-1 tiles; sometimes deep tiles with large indices (other path arithmetic, longer names)
    if ch.draw(5, kind="deep_tile_positions") == 4:
        positions = [Pos(11, 1733, 2047), Pos(11, 1734, 2047)][:npos]
    else:
        positions = [Pos(1, 0, 0), Pos(1, 1, 0)][:npos]
    nproc = 2 + ch.draw(4, kind="nproc")
    if ch.draw(12, kind="many_updaters") == 11:
        nproc = 8 + ch.draw(5, kind="many_updaters_n")      # "any number of concurrent updaters"
    explicit_format = ch.draw(2, kind="explicit_format") == 1
    plans = []
    uid = 0
    for u in range(nproc):
        ops = []
        for j in range(1 + ch.draw(3, p0=0.5, kind="nops")):
            uid += 1
            pi = ch.draw(npos, kind="pos")
            h = 1 + ch.draw(256, kind="h")
            w = 1 + ch.draw(256, kind="w")
            y0 = ch.draw(256 - h + 1, kind="y0")
            x0 = ch.draw(256 - w + 1, kind="x0")
            iy0 = ch.draw(256 - h + 1, kind="iy0")
            ix0 = ch.draw(256 - w + 1, kind="ix0")
            mk = ch.draw(4, kind="mask")
            ny = ch.draw(3, kind="cs_yields")
            ops.append({"uid": uid, "pos": pi, "rect": (y0, h, x0, w), "src": (iy0, ix0), "mask": mk, "yields": ny})
        plans.append(ops)
    d = env.fresh_dir()
    res = {"config": {"format": fmt, "mode": mode.name, "npos": npos, "nproc": nproc, "explicit_format": explicit_format,
                      "plans": [[(o["uid"], o["pos"], o["rect"], o["mask"]) for o in ops] for ops in plans]},
           "extra": {"combo_%s_%s" % (fmt, mode.name): 1, "nproc_%d" % nproc: 1}}

    sim = Sim(ch, step_cap=60000)
    sim.rootdir = d
    sim.write_yields = 2
    sim.torn_split = (None, 0.1, 0.9)[ch.draw(3, kind="torn_split")]
    res["config"].update(common.sched_config(sim))
    history = []        # (step, task, kind, payload)
    polled = set()

    lock_names = {}

    def on_lock(kind, rel):
        from ..kernel import current_task
        t = current_task()
        if kind == "acquire":
            lock_names.setdefault(rel, 0)
            lock_names[rel] += 1
        if kind == "busy":
            polled.add(t.name)
            return
        history.append((sim.step, t.name, kind, rel))
        if kind == "acquire":
            if t.name in polled:
                polled.discard(t.name)
                sim.probe("acquired_after_poll")
            waiting = sum(1 for x in sim.tasks if x.state == "blocked" and (x.waiting_op or "").startswith("sleep"))
            if waiting >= 2:
                sim.probe("three_waiting")

    def on_read(pos, img):
        from ..kernel import current_task
        t = current_task()
        history.append((sim.step, t.name, "read", (tuple(pos), None if img is None else np.array(img.asarray(), copy=True))))

    sim.on_lock = on_lock
    sim.on_read = on_read
    scheme = ("L/Y/YX", "LXY")[ch.draw(2, p0=0.7, kind="scheme")]
    res["config"]["scheme"] = scheme
    pio = PyramidIO(d, scheme=scheme, default_format=fmt)
    import multiprocessing as mp

    def updater(pio, ops):
        from ..kernel import current_task
        me = current_task()
        for o in ops:
            src = make_source(mode, o["uid"], o["mask"])
            y0, h, x0, w = o["rect"]
            iy0, ix0 = o["src"]
            kw = {"format": fmt} if explicit_format else {}
            sim.event("invoke", o["uid"])
            with pio.update_image(positions[o["pos"]], masked_mode=mode, default="masked", **kw) as basis:
                for _ in range(o["yields"]):
                    sim.yield_point("in-cs")
                src.update_into_maskable_buffer(basis, slice(iy0, iy0 + h), slice(ix0, ix0 + w), slice(y0, y0 + h), slice(x0, x0 + w))
            sim.event("return", o["uid"])

    procs = []

    def main():
        for ops in plans:
            p = mp.Process(target=updater, args=(pio, ops))
            p.start()
            procs.append(p)
        for p in procs:
            p.join()

    main_task = sim.run(main)
    common.sim_summary(sim, res)
    res["xproc"] = {"lock_files_used": sorted(lock_names)}
    if any("write.truncated" in l or "write.partial" in l or "write.unlinked" in l for l in sim.trace) and sim.concurrent_steps:
        res.setdefault("probes", {})["scheduled_during_torn_write"] = res.get("probes", {}).get("scheduled_during_torn_write", 0) + _count_torn_switches(sim.trace)

    if sim.status != "returned":
        res["violation"] = viol(PROP, "does-not-return", "updaters did not finish: simulator status %s at step %d; blocked: %s" % (
            sim.status, sim.step, [(t.name, t.waiting_op) for t in sim.tasks if t.state == "blocked"][:8]))
        return res
    for t in sim.tasks:
        if t.exc is not None:
            res["violation"] = viol(PROP, "updater-raised", "%s raised %r (a reader obtained a torn / truncated tile?)\n%s" % (t.name, t.exc, (t.exc_tb or "")[-700:]))
            return res

    # ---- linearizability against the sequential model ----------------------
    # map task -> its plan
    task_plan = {"w%d" % (i + 1): plans[i] for i in range(nproc)}
    acq_count = {}
    sections = []       # (acq_step, rel_step, task, op, read_array)
    open_sec = {}
    for step, task, kind, payload in history:
        if task not in task_plan:
            continue
        if kind == "acquire":
            k = acq_count.get(task, 0)
            acq_count[task] = k + 1
            open_sec[task] = [step, None, task, task_plan[task][k], None, False]
            sections.append(open_sec[task])
        elif kind == "read" and task in open_sec:
            if open_sec[task][4] is None and not open_sec[task][5]:
                open_sec[task][4] = payload[1]
                open_sec[task][5] = True
        elif kind == "release" and task in open_sec:
            open_sec[task][1] = step
            del open_sec[task]
    n_ops = sum(len(p) for p in plans)
    if len(sections) != n_ops:
        res["harness_error"] = "expected %d critical sections, saw %d" % (n_ops, len(sections))
        return res
    # (c) mutual exclusion per position
    bypos = {}
    for s in sections:
        bypos.setdefault(s[3]["pos"], []).append(s)
    for pi, secs in bypos.items():
        secs.sort(key=lambda s: s[0])
        for a, b in zip(secs, secs[1:]):
            if a[1] is None or b[0] < a[1]:
                res["violation"] = viol(PROP, "critical-sections-overlap", "updates #%d (%s, steps %s-%s) and #%d (%s, from step %s) of tile %s held the update lock at the same time" % (
                    a[3]["uid"], a[2], a[0], a[1], b[3]["uid"], b[2], b[0], tuple(positions[pi])))
                return res
    # (a)+(b): sequential application in acquisition order
    for pi, secs in bypos.items():
        model = mode.make_maskable_buffer(256, 256)
        model.clear()
        for s in secs:
            o = s[3]
            got = s[4]
            # a read made while holding the lock must return the model state; an implementation that
            # legitimately skips the read (tile known to be absent) is judged by the final state alone
            if s[5] and (got is None or not arrays_equal(got, model.asarray())):
                res["violation"] = viol(PROP, "stale-or-torn-read", "update #%d (%s) read tile %s while holding the lock but did not obtain the result of the %d updates that released the lock before it (%s)" % (
                    o["uid"], s[2], tuple(positions[pi]), secs.index(s), "no image" if got is None else "pixels differ at %d places" % _ndiff(got, model.asarray())))
                return res
            src = make_source(mode, o["uid"], o["mask"])
            y0, h, x0, w = o["rect"]
            iy0, ix0 = o["src"]
            src.update_into_maskable_buffer(model, slice(iy0, iy0 + h), slice(ix0, ix0 + w), slice(y0, y0 + h), slice(x0, x0 + w))
            if model.is_completely_masked():
                model.clear()
        final = pio.read_image(positions[pi], default="masked", masked_mode=mode)
        if not arrays_equal(final.asarray(), model.asarray()):
            res["violation"] = viol(PROP, "lost-update", "final tile %s differs from the sequential application of updates %s in lock order at %d pixels" % (
                tuple(positions[pi]), [s[3]["uid"] for s in secs], _ndiff(final.asarray(), model.asarray())))
            return res
    locks = glob.glob(os.path.join(d, "**", "*.lock"), recursive=True)
    if locks:
        res["violation"] = viol(PROP, "lock-file-left", "lock files remain after all updaters returned: %s" % [os.path.relpath(l, d) for l in locks])
    return res


def _ndiff(a, b):
    a = np.asarray(a)
    b = np.asarray(b)
    if a.shape != b.shape:
        return -1
    if a.dtype.kind == "f":
        return int(np.sum(~((a == b) | (np.isnan(a) & np.isnan(b)))))
    return int(np.sum(a != b))


def _count_torn_switches(trace):
    n = 0
    prev = None
    for l in trace:
        parts = l.split(" ", 2)
        if prev is not None and ("write.truncated" in prev[2] or "write.partial" in prev[2] or "write.unlinked" in prev[2]) and parts[1] != prev[1]:
            n += 1
        prev = parts
    return n
