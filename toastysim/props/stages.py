"""The parallel fan-out stages of toasty (and the walk) as uniform 'stage'
objects used by the C03 (exactly-once / termination) and C19 (error reporting)
checks.  Each stage draws its workload from the choice sequence, knows the
multiset of items the serial mode processes, and can run the real entry point
with a given worker count and a recording callback."""

import os
from collections import Counter

import numpy as np

from toasty.pyramid import Pos, PyramidIO, generate_pos
from toasty import toast as ttoast
from toasty.toast import ToastCoordinateSystem

from . import common


LARGE_OK = [False]       # C03 switches the occasional very large item sets on


class InjectedError(Exception):
    pass


class InjectedOSError(InjectedError, OSError):
    pass


class InjectedFileNotFound(InjectedError, FileNotFoundError):
    pass


class InjectedValueError(InjectedError, ValueError):
    pass


class InjectedKeyError(InjectedError, KeyError):
    pass


class InjectedEOFError(InjectedError, EOFError):
    pass


# the kinds of error item processing realistically raises (I/O, decoding, lookup, arithmetic, generic)
ERROR_KINDS = [InjectedError, InjectedOSError, InjectedValueError, InjectedFileNotFound, InjectedKeyError, InjectedEOFError]


class Recorder(object):
    """Shared (never forked) history recorder + fault plan."""

    def __init__(self, sim, nyield=0, fail_at=None, fail_kind="callback", error_cls=InjectedError, fail_after=0.0):
        self.sim = sim
        self.nyield = nyield
        self.fail_at = fail_at          # fail on the k-th started item (0-based), or None
        self.fail_kind = fail_kind
        self.error_cls = error_cls
        self.fail_after = fail_after    # virtual seconds the failing item works before it raises
        self.nstart = 0
        self.serial = None              # list when used outside a simulation
        self.injected = None

    def __deepcopy__(self, memo):
        return self

    def begin(self, key):
        k = self.nstart
        self.nstart += 1
        if self.serial is not None:
            self.serial.append(("start", key))
        else:
            self.sim.event("start", *key)
        if self.fail_at is not None and k == self.fail_at and self.injected is None:
            self.injected = key
            if self.sim is not None and self.fail_after > 0:
                # a slow item that fails late: peers may run out of work and exit in the meantime
                self.sim.sleep(self.fail_after)
                for _ in range(self.nyield):
                    self.sim.yield_point("cb")
            if self.sim is not None:
                self.sim.fault("injected_exception")
                self.sim.event("inject", *key)
                self.sim.injected_at = (self.sim.step, self.sim.now)
                self.sim.vtime_cap = self.sim.now + 610.0
                self.sim.stop_faults()
            if issubclass(self.error_cls, OSError):
                import errno
                raise self.error_cls(errno.EIO, "injected failure while processing item %r" % (key,))
            raise self.error_cls("injected failure while processing item %r" % (key,))
        for _ in range(self.nyield):
            if self.sim is not None:
                self.sim.yield_point("cb")

    def end(self, key):
        if self.serial is not None:
            self.serial.append(("end", key))
        else:
            self.sim.event("end", *key)

    def note(self, *ev):
        if self.serial is not None:
            self.serial.append(ev)
        else:
            self.sim.event(*ev)


def tile_geometry_ok(pos, tile, coordsys):
    if coordsys is None or pos.n == 0:
        return tile is None
    if tile is None:
        return False
    ref = ttoast.create_single_tile(pos, coordsys)
    if tile.pos != pos or bool(tile.increasing) != bool(ref.increasing):
        return False
    return np.array_equal(np.asarray(tile.corners), np.asarray(ref.corners))


class LeafVisitStage(object):
    name = "visit_leaves"

    def __init__(self, ch):
        if LARGE_OK[0] and (os.environ.get("TOASTYSIM_FORCE_HUGE") or (common.thorough() and ch.draw(12000, kind="huge_leaf_set") == 11999)):
            # thorough tier, very rarely: a filtered layer with a quarter of a million leaves (anything capped at 2**16)
            self.cfg = common.PyrConfig("filtered", 9, None, {Pos(3, ch.draw(8, kind="huge_reject_x"), ch.draw(8, kind="huge_reject_y")), Pos(9, 1, 2)})
            self.large = True
            self.huge = True
            self.coordsys = ToastCoordinateSystem.ASTRONOMICAL
            return
        if LARGE_OK[0] and ch.draw(500 if common.thorough() else 120, kind="large_leaf_set") == 0:
            # now and then a layer with thousands of leaves (hundreds per worker): size-dependent code paths
            if ch.draw(2, kind="large_filtered") == 1:
                # a filtered TOAST layer with an 'odd' number of leaves (a rejected subtree plus a sprinkling of leaves)
                m = (3, 5, 11)[ch.draw(3, kind="large_reject_mod")]
                rejects = {Pos(5, x, y) for x in range(32) for y in range(32) if (x * 7 + y * 13) % m == 0}
                rejects.add(Pos(2, ch.draw(4, kind="large_reject_x"), ch.draw(4, kind="large_reject_y")))
                self.cfg = common.PyrConfig("filtered", 5, None, rejects)
            else:
                self.cfg = common.PyrConfig("generic", 5 + ch.draw(2, kind="large_depth"), None, set())
            self.large = True
        else:
            self.cfg = common.draw_pyramid(ch, max_generic=3, max_toast=3, allow_deep=True)
        self.coordsys = None
        if self.cfg.kind != "generic":
            self.coordsys = (ToastCoordinateSystem.ASTRONOMICAL, ToastCoordinateSystem.PLANETARY)[ch.draw(2, kind="coordsys")]

    def describe(self):
        d = self.cfg.describe()
        d["stage"] = self.name
        d["coordsys"] = self.coordsys.value if self.coordsys else None
        return d

    def expected(self):
        return Counter(tuple(p) for p in self.cfg.reachable_leaves())

    def _build(self):
        return self.cfg.build(coordsys=self.coordsys)

    def run(self, parallel, rec, env_dir=None):
        coordsys = self.coordsys

        def callback(pos, tile):
            key = tuple(pos)
            rec.begin(key)
            if not tile_geometry_ok(pos, tile, coordsys):
                rec.note("geom-mismatch", *key)
            rec.end(key)

        self._build().visit_leaves(callback, parallel=common.parg(parallel), **common.pkw())


class TransformStage(object):
    name = "transform"

    def __init__(self, ch):
        self.depth = ch.draw(4, kind="depth")
        if LARGE_OK[0] and ch.draw(120, kind="large_item_set") == 119:
            self.depth = 5 + ch.draw(2, kind="large_depth")
            self.large = True

    def describe(self):
        return {"stage": self.name, "depth": self.depth}

    def expected(self):
        return Counter(tuple(p) for p in generate_pos(self.depth))

    def run(self, parallel, rec, env_dir=None):
        from toasty.transform import _do_a_transform

        def do_one(buf, pos, pio_in, pio_out):
            key = tuple(pos)
            rec.begin(key)
            if buf is None or buf.shape != (4,):
                rec.note("bad-buf", *key)
            rec.end(key)

        _do_a_transform(None, self.depth, lambda: np.zeros(4), do_one, parallel=common.parg(parallel), **common.pkw())


class WalkStage(object):
    """Pyramid.walk as a stage (used by C19 only; C01 has its own oracle)."""
    name = "walk"

    def __init__(self, ch):
        self.cfg = common.draw_pyramid(ch, max_generic=3, max_toast=3, min_depth=1)

    def describe(self):
        d = self.cfg.describe()
        d["stage"] = self.name
        return d

    def expected(self):
        return Counter(tuple(p) for p in self.cfg.live_parents())

    def run(self, parallel, rec, env_dir=None):
        def callback(pos):
            key = tuple(pos)
            rec.begin(key)
            rec.end(key)

        self.cfg.build().walk(callback, parallel=common.parg(parallel), **common.pkw())


class U8TransformStage(object):
    """The real u8_to_rgb transform on a small npy pyramid (real tile I/O)."""
    name = "u8_to_rgb"
    needs_dir = True

    def __init__(self, ch):
        self.depth = ch.draw(3, kind="depth")
        self.present = []
        for p in generate_pos(self.depth):
            # (the root tile is as optional as any other: a layer that has not been cascaded yet has none)
            if ch.draw(2, p0=0.3, kind="tile_present") == 0:
                self.present.append(tuple(p))

    def describe(self):
        return {"stage": self.name, "depth": self.depth, "n_present": len(self.present)}

    def expected(self):
        return Counter(tuple(p) for p in generate_pos(self.depth))

    def populate(self, d):
        from toasty.image import Image
        pio = PyramidIO(d, default_format="npy")
        for key in self.present:
            n, x, y = key
            arr = np.full((256, 256), (17 * n + 5 * x + 3 * y + 1) % 251, dtype=np.uint8)
            pio.write_image(Pos(*key), Image.from_array(arr))
        return pio

    def run(self, parallel, rec, env_dir=None):
        from toasty import transform
        pio = PyramidIO(env_dir, default_format="npy")
        orig = transform._u8_to_rgb_do_one

        def do_one(buf, pos, pio_in, pio_out):
            key = tuple(pos)
            rec.begin(key)
            orig(buf, pos, pio_in, pio_out)
            rec.end(key)

        # the public entry point, with the per-tile function it looks up at call time wrapped for recording
        transform._u8_to_rgb_do_one = do_one
        try:
            transform.u8_to_rgb(pio, self.depth, parallel=common.parg(parallel), **common.pkw())
        finally:
            transform._u8_to_rgb_do_one = orig

    def check_outputs(self, d):
        from PIL import Image as PILImage
        pio = PyramidIO(d, default_format="npy")
        for p in generate_pos(self.depth):
            key = tuple(p)
            path = pio.tile_path(p, format="jpg", makedirs=False)
            if (key in self.present) != os.path.exists(path):
                return "output %s for %s: exists=%s but input present=%s" % (path.rsplit('/', 3)[-3:], key, os.path.exists(path), key in self.present)
            if key in self.present:
                n, x, y = key
                want = (17 * n + 5 * x + 3 * y + 1) % 251
                arr = np.asarray(PILImage.open(path))
                if arr.shape != (256, 256, 3) or abs(int(arr[128, 128, 0]) - want) > 3 or abs(int(arr[3, 250, 2]) - want) > 3:
                    return "output for %s has wrong content (want grey %d, got %s shape %s)" % (key, want, arr[128, 128], arr.shape)
        return None


class F16TransformStage(U8TransformStage):
    """The real f16x3_to_rgb transform (three-plane half-float tiles -> png) through its public entry point."""
    name = "f16x3_to_rgb"

    def __init__(self, ch):
        U8TransformStage.__init__(self, ch)
        self.clip = (1.0, 4.0)[ch.draw(2, kind="clip")]

    def describe(self):
        return dict(U8TransformStage.describe(self), clip=self.clip)

    def value(self, key):
        n, x, y = key
        return ((17 * n + 5 * x + 3 * y + 1) % 23) / 16.0

    def populate(self, d):
        from toasty.image import Image
        pio = PyramidIO(d, default_format="npy")
        for key in self.present:
            arr = np.full((256, 256, 3), self.value(key), dtype=np.float16)
            arr[:8, :8] = np.nan            # an undefined corner maps to black
            pio.write_image(Pos(*key), Image.from_array(arr))
        return pio

    def run(self, parallel, rec, env_dir=None):
        from toasty import transform
        pio = PyramidIO(env_dir, default_format="npy")
        orig = transform._float_to_rgb_do_one

        def do_one(buf, pos, pio_in, pio_out, tr, out_format):
            key = tuple(pos)
            rec.begin(key)
            orig(buf, pos, pio_in, pio_out, tr, out_format)
            rec.end(key)

        transform._float_to_rgb_do_one = do_one
        try:
            transform.f16x3_to_rgb(pio, self.depth, clip=self.clip, parallel=common.parg(parallel), **common.pkw())
        finally:
            transform._float_to_rgb_do_one = orig

    def check_outputs(self, d):
        from PIL import Image as PILImage
        pio = PyramidIO(d, default_format="npy")
        for p in generate_pos(self.depth):
            key = tuple(p)
            path = pio.tile_path(p, format="png", makedirs=False)
            if (key in self.present) != os.path.exists(path):
                return "output %s for %s: exists=%s but input present=%s" % (path.rsplit('/', 3)[-3:], key, os.path.exists(path), key in self.present)
            if key in self.present:
                v = float(np.float16(self.value(key)))
                want = int(np.clip(np.sqrt(min(max(v / self.clip, 0.0), 1.0)) * 255, 0, 255))
                arr = np.asarray(PILImage.open(path))
                if arr.shape != (256, 256, 3) or abs(int(arr[128, 128, 0]) - want) > 1 or abs(int(arr[250, 3, 2]) - want) > 1 or arr[2, 2].any():
                    return "output for %s has wrong content (want grey %d with a black corner, got %s / corner %s, shape %s)" % (key, want, arr[128, 128], arr[2, 2], arr.shape)
        return None


class RealCascadeStage(object):
    """The real cascade (cascade_images + TileMerger) over a small pyramid in which one tile file is corrupt
    (truncated): reading it fails inside the real walk callback - serially and in every parallel mode the cascade
    must fail visibly (C19 only)."""
    name = "real_cascade"
    needs_dir = True
    intrinsic_fault = True
    must_fail_serial = True

    def __init__(self, ch):
        self.start = 1 + ch.draw(2, kind="start")
        self.fmt = ("npy", "fits", "png")[ch.draw(3, kind="format")]
        n = 2 ** self.start
        self.leaves = [(self.start, x, y) for y in range(n) for x in range(n) if ch.draw(4, kind="leaf_present") != 3]
        if not self.leaves:
            self.leaves = [(self.start, 0, 0)]
        self.victim = self.leaves[ch.draw(len(self.leaves), kind="corrupt_tile")]
        self.how = ch.draw(3, kind="corruption")     # 0 truncate to half, 1 truncate to 10 bytes, 2 garbage

    def describe(self):
        return {"stage": self.name, "start": self.start, "format": self.fmt, "n_leaves": len(self.leaves), "corrupt_tile": self.victim,
                "corruption": ("half", "10 bytes", "garbage")[self.how]}

    def expected(self):
        return Counter({"x": 1})

    def populate(self, d):
        from toasty.image import Image
        pio = PyramidIO(d, default_format=self.fmt)
        for k, key in enumerate(self.leaves):
            if self.fmt == "png":
                arr = np.full((256, 256, 4), 255, dtype=np.uint8)
                arr[..., 0] = (k * 37) % 256
            else:
                arr = np.full((256, 256), float(k + 1), dtype=np.float32)
            pio.write_image(Pos(*key), Image.from_array(arr))
        path = pio.tile_path(Pos(*self.victim), makedirs=False)
        size = os.path.getsize(path)
        with open(path, "r+b") as f:
            if self.how == 0:
                f.truncate(size // 2)
            elif self.how == 1:
                f.truncate(10)
            else:
                f.seek(0)
                f.write(b"\x00garbage\xff" * 8)
                f.truncate(100)

    def run(self, parallel, rec, env_dir=None):
        from toasty.merge import averaging_merger, cascade_images
        cascade_images(PyramidIO(env_dir, default_format=self.fmt), self.start, averaging_merger, parallel=common.parg(parallel), **common.pkw())


class RealSamplingStage(object):
    """The real TOAST sampling (sample_layer / ToastSampler) with a sampler that raises on its k-th call (C19 only)."""
    name = "real_sampling"
    needs_dir = True
    intrinsic_fault = True
    must_fail_serial = True

    def __init__(self, ch):
        self.depth = 1 + ch.draw(2, p0=0.8, kind="depth")
        self.k = ch.draw(4 ** self.depth, kind="fail_at_call")
        self.err = ERROR_KINDS[ch.draw(len(ERROR_KINDS), kind="error_kind")]
        self.update = ch.draw(2, kind="update_mode") == 1

    def describe(self):
        return {"stage": self.name, "depth": self.depth, "fail_at_call": self.k, "error": self.err.__name__, "update": self.update}

    def expected(self):
        return Counter({"x": 1})

    def populate(self, d):
        pass

    def run(self, parallel, rec, env_dir=None):
        from toasty import toast as ttoast
        calls = [0]
        k, err = self.k, self.err

        def sampler(lon, lat):
            n = calls[0]
            calls[0] += 1
            if n == k:
                if issubclass(err, OSError):
                    import errno
                    raise err(errno.EIO, "injected sampler failure")
                raise err("injected sampler failure")
            return (lon + lat).astype(np.float32)

        pio = PyramidIO(env_dir, default_format="npy")
        if self.update:
            ttoast.sample_layer_filtered(pio, lambda t: True, sampler, self.depth, parallel=common.parg(parallel), **common.pkw())
        else:
            ttoast.sample_layer(pio, sampler, self.depth, parallel=common.parg(parallel), **common.pkw())
