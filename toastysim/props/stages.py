"""The parallel fan-out stages of toasty (and the walk) as uniform 'stage'
objects used by the C03 (exactly-once / termination) and C19 (error reporting)
checks.  Each stage draws its workload from the choice sequence, knows the
multiset of items the serial mode processes, and can run the real entry point
with a given worker count and a recording callback."""

import os
from collections import Counter

import numpy as np

from toasty.pyramid import Pos, PyramidIO, generate_pos
from toasty import toast as ttoast
from toasty.toast import ToastCoordinateSystem

from . import common


LARGE_OK = [False]       # C03 switches the occasional very large item sets on


class InjectedError(Exception):
    pass


class InjectedOSError(InjectedError, OSError):
    pass


class InjectedFileNotFound(InjectedError, FileNotFoundError):
    pass


class InjectedValueError(InjectedError, ValueError):
    pass


class InjectedKeyError(InjectedError, KeyError):
    pass


class InjectedEOFError(InjectedError, EOFError):
    pass


# the kinds of error item processing realistically raises (I/O, decoding, lookup, arithmetic, generic)
ERROR_KINDS = [InjectedError, InjectedOSError, InjectedValueError, InjectedFileNotFound, InjectedKeyError, InjectedEOFError]


class Recorder(object):
    """Shared (never forked) history recorder + fault plan."""

    def __init__(self, sim, nyield=0, fail_at=None, fail_kind="callback", error_cls=InjectedError, fail_after=0.0):
        self.sim = sim
        self.nyield = nyield
        self.fail_at = fail_at          # fail on the k-th started item (0-based), or None
        self.fail_kind = fail_kind
        self.error_cls = error_cls
        self.fail_after = fail_after    # virtual seconds the failing item works before it raises
        self.nstart = 0
        self.serial = None              # list when used outside a simulation
        self.injected = None

    def __deepcopy__(self, memo):
        return self

    def begin(self, key):
        k = self.nstart
        self.nstart += 1
        if self.serial is not None:
            self.serial.append(("start", key))
        else:
            self.sim.event("start", *key)
        if self.fail_at is not None and k == self.fail_at and self.injected is None:
            self.injected = key
            if self.sim is not None and self.fail_after > 0:
                # a slow item that fails late: peers may run out of work and exit in the meantime
                self.sim.sleep(self.fail_after)
                for _ in range(self.nyield):
                    self.sim.yield_point("cb")
            if self.sim is not None:
                self.sim.fault("injected_exception")
                self.sim.event("inject", *key)
                self.sim.injected_at = (self.sim.step, self.sim.now)
                self.sim.vtime_cap = self.sim.now + 610.0
                self.sim.stop_faults()
            if issubclass(self.error_cls, OSError):
                import errno
                raise self.error_cls(errno.EIO, "injected failure while processing item %r" % (key,))
            raise self.error_cls("injected failure while processing item %r" % (key,))
        for _ in range(self.nyield):
            if self.sim is not None:
                self.sim.yield_point("cb")

    def end(self, key):
        if self.serial is not None:
            self.serial.append(("end", key))
        else:
            self.sim.event("end", *key)

    def note(self, *ev):
        if self.serial is not None:
            self.serial.append(ev)
        else:
            self.sim.event(*ev)


def tile_geometry_ok(pos, tile, coordsys):
    if coordsys is None or pos.n == 0:
        return tile is None
    if tile is None:
        return False
    ref = ttoast.create_single_tile(pos, coordsys)
    if tile.pos != pos or bool(tile.increasing) != bool(ref.increasing):
        return False
    return np.array_equal(np.asarray(tile.corners), np.asarray(ref.corners))


class LeafVisitStage(object):
    name = "visit_leaves"

    def __init__(self, ch):
        if LARGE_OK[0] and ch.draw(120, kind="large_leaf_set") == 119:
            # now and then a layer with thousands of leaves (hundreds per worker): size-dependent code paths
            self.cfg = common.PyrConfig("generic", 5 + ch.draw(2, kind="large_depth"), None, set())
            self.large = True
        else:
            self.cfg = common.draw_pyramid(ch, max_generic=3, max_toast=3, allow_deep=True)
        self.coordsys = None
        if self.cfg.kind != "generic":
            self.coordsys = (ToastCoordinateSystem.ASTRONOMICAL, ToastCoordinateSystem.PLANETARY)[ch.draw(2, kind="coordsys")]

    def describe(self):
        d = self.cfg.describe()
        d["stage"] = self.name
        d["coordsys"] = self.coordsys.value if self.coordsys else None
        return d

    def expected(self):
        return Counter(tuple(p) for p in self.cfg.reachable_leaves())

    def _build(self):
        from toasty.pyramid import Pyramid
        cfg = self.cfg
        if cfg.kind == "generic":
            p = Pyramid.new_generic(cfg.depth)
        elif cfg.kind == "toast":
            p = Pyramid.new_toast(cfg.depth, coordsys=self.coordsys)
        elif cfg.kind == "deep":
            accept = cfg.accept
            p = Pyramid.new_toast_filtered(cfg.depth, lambda t: t.pos in accept, coordsys=self.coordsys)
        else:
            rejects = cfg.rejects
            p = Pyramid.new_toast_filtered(cfg.depth, lambda t: t.pos not in rejects, coordsys=self.coordsys)
        if cfg.apex is not None:
            p = p.subpyramid(cfg.apex)
        return p

    def run(self, parallel, rec, env_dir=None):
        coordsys = self.coordsys

        def callback(pos, tile):
            key = tuple(pos)
            rec.begin(key)
            if not tile_geometry_ok(pos, tile, coordsys):
                rec.note("geom-mismatch", *key)
            rec.end(key)

        self._build().visit_leaves(callback, parallel=parallel)


class TransformStage(object):
    name = "transform"

    def __init__(self, ch):
        self.depth = ch.draw(4, kind="depth")
        if LARGE_OK[0] and ch.draw(120, kind="large_item_set") == 119:
            self.depth = 5 + ch.draw(2, kind="large_depth")
            self.large = True

    def describe(self):
        return {"stage": self.name, "depth": self.depth}

    def expected(self):
        return Counter(tuple(p) for p in generate_pos(self.depth))

    def run(self, parallel, rec, env_dir=None):
        from toasty.transform import _do_a_transform

        def do_one(buf, pos, pio_in, pio_out):
            key = tuple(pos)
            rec.begin(key)
            if buf is None or buf.shape != (4,):
                rec.note("bad-buf", *key)
            rec.end(key)

        _do_a_transform(None, self.depth, lambda: np.zeros(4), do_one, parallel=parallel)


class WalkStage(object):
    """Pyramid.walk as a stage (used by C19 only; C01 has its own oracle)."""
    name = "walk"

    def __init__(self, ch):
        self.cfg = common.draw_pyramid(ch, max_generic=3, max_toast=3, min_depth=1)

    def describe(self):
        d = self.cfg.describe()
        d["stage"] = self.name
        return d

    def expected(self):
        return Counter(tuple(p) for p in self.cfg.live_parents())

    def run(self, parallel, rec, env_dir=None):
        def callback(pos):
            key = tuple(pos)
            rec.begin(key)
            rec.end(key)

        self.cfg.build().walk(callback, parallel=parallel)


class U8TransformStage(object):
    """The real u8_to_rgb transform on a small npy pyramid (real tile I/O)."""
    name = "u8_to_rgb"
    needs_dir = True

    def __init__(self, ch):
        self.depth = ch.draw(3, kind="depth")
        self.present = []
        for p in generate_pos(self.depth):
            if ch.draw(2, p0=0.3, kind="tile_present") == 0 or p.n == 0:
                self.present.append(tuple(p))

    def describe(self):
        return {"stage": self.name, "depth": self.depth, "n_present": len(self.present)}

    def expected(self):
        return Counter(tuple(p) for p in generate_pos(self.depth))

    def populate(self, d):
        from toasty.image import Image
        pio = PyramidIO(d, default_format="npy")
        for key in self.present:
            n, x, y = key
            arr = np.full((256, 256), (17 * n + 5 * x + 3 * y + 1) % 251, dtype=np.uint8)
            pio.write_image(Pos(*key), Image.from_array(arr))
        return pio

    def run(self, parallel, rec, env_dir=None):
        from toasty import transform
        pio = PyramidIO(env_dir, default_format="npy")
        orig = transform._u8_to_rgb_do_one

        def do_one(buf, pos, pio_in, pio_out):
            key = tuple(pos)
            rec.begin(key)
            orig(buf, pos, pio_in, pio_out)
            rec.end(key)

        transform._do_a_transform(pio, self.depth, lambda: np.empty((256, 256, 3), dtype=np.uint8), do_one, parallel=parallel)

    def check_outputs(self, d):
        from PIL import Image as PILImage
        pio = PyramidIO(d, default_format="npy")
        for p in generate_pos(self.depth):
            key = tuple(p)
            path = pio.tile_path(p, format="jpg", makedirs=False)
            if (key in self.present) != os.path.exists(path):
                return "output %s for %s: exists=%s but input present=%s" % (path.rsplit('/', 3)[-3:], key, os.path.exists(path), key in self.present)
            if key in self.present:
                n, x, y = key
                want = (17 * n + 5 * x + 3 * y + 1) % 251
                arr = np.asarray(PILImage.open(path))
                if arr.shape != (256, 256, 3) or abs(int(arr[128, 128, 0]) - want) > 3 or abs(int(arr[3, 250, 2]) - want) > 3:
                    return "output for %s has wrong content (want grey %d, got %s shape %s)" % (key, want, arr[128, 128], arr.shape)
        return None
