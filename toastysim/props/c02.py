"""C02 - cascade output: every parent tile is the 2x2 downsample of its
children mosaic; identical serial / parallel.  Also hosts the C14 oracle (FITS
data range), which c14.py selects.  DESIGN.md 5.2."""

import os

import numpy as np

from toasty.image import Image, ImageMode
from toasty.merge import averaging_merger, cascade_images
from toasty.pyramid import Pos, PyramidIO, pos_children

from ..kernel import Sim
from . import common
from .common import viol

PROP = "C02"
LEVEL = "exploration"
RULE = ("one run = one generated pyramid of leaf tiles (start depth 1-3, sparse populated subset, per-run content with NaN / "
        "transparent patches, format x mode, optional stale parent files, optional TOAST tile filter accepting every populated "
        "tile) cascaded by the real cascade_images with 1/2/3/5 workers under one complete schedule drawn from the seeded choice "
        "sequence; every produced tile at every level is compared with an independent numpy reference computed in display "
        "orientation; non-trivial = >= 2 tasks enabled at some step (parallel) or a serial run with >= 2 merges; distinct = "
        "distinct sha1 of (scheduler trace + workload description)")
COMPONENTS = {
    "real": ["merge.cascade_images / TileMerger.walk_callback / averaging_merger", "Pyramid.walk (serial + parallel)",
             "PyramidIO.read_image/write_image", "Image.update_into_maskable_buffer / is_completely_masked / save / load (numpy, astropy.io.fits, PIL)",
             "Builder.cascade (C14 image-set range)", "real files on tmpfs"],
    "stub": ["multiprocessing.Queue/Event/Process (model)", "clock", "file write atomicity model (truncate|unlink -> prefix -> rest)"],
}
ASSUMPTIONS = [
    "floating-point tiles are compared with a rounding tolerance of 16*eps*levels*max|value| (the property says 'mean', not a summation order); NaN pattern, integer and colour tiles bit-exact; jpg within 6 grey levels per cascade level, away from quadrant boundaries",
    "integer / colour leaf data are non-negative and never entirely zero; F16x3 pixels are all-NaN or all-finite",
    "stale parent files are planted only where at least one child tile exists (the property is silent about leftovers under childless parents)",
    "the multiprocessing model is faithful; pre-emption only at IPC / tile-file primitives",
]
MANIFEST = {
    "text": "seeded exploration: the real cascade (serial and with 2/3/5 workers under the simulator, torn child writes observable) over generated sparse pyramids in every lossless format x mode (plus jpg with tolerance); oracle = independent numpy reference of the 2x2 block reduction in display orientation, compared tile by tile at every level together with the set of files. Sampling, not proof.",
    "design_ref": "DESIGN.md 5.2",
    "note": "trusted: numpy arithmetic for the reference; the multiprocessing and file-write models",
    "technique": "deterministic simulation: seeded schedule search of the parallel cascade with non-atomic tile writes; differential oracle vs numpy reference model of the reduction",
}
BUDGET = {"quick": (700, 75), "thorough": (90000, 1500)}
REQUIRED_PROBES = {"quick": ["parallel_runs", "stale_parent_planted", "sparse_parent"],
                   "thorough": ["parallel_runs", "stale_parent_planted", "sparse_parent", "merged_all_undefined", "with_filter", "deep_cascade"]}
CHUNK = 6
SELFTEST_EVERY = 25

# (format, mode, numpy dtype / kind)
COMBOS = [
    ("npy", "F32"), ("fits", "F32"), ("png", "RGBA"), ("npy", "F64"), ("fits", "F64"), ("npy", "RGBA"), ("png", "RGB"),
    ("npy", "RGB"), ("npy", "I16"), ("fits", "I16"), ("npy", "I32"), ("fits", "I32"), ("npy", "U8"), ("npy", "F16x3"), ("jpg", "RGB"),
    ("png", "RGBmix"),      # a png pyramid whose leaves are a mixture of RGB and RGBA tiles
]
FITS_COMBOS = [c for c in COMBOS if c[0] == "fits"]
DTYPES = {"F32": np.float32, "F64": np.float64, "I16": np.int16, "I32": np.int32, "U8": np.uint8, "F16x3": np.float16}


def gen_leaf(rng, mode, style, const=None, allow_inf=False):
    """A 256x256 leaf tile (as stored, before any vertical flip), or None if entirely undefined."""
    if mode in ("F32", "F64", "F16x3"):
        dt = DTYPES[mode]
        shape = (256, 256) if mode != "F16x3" else (256, 256, 3)
        scale = 60.0 if mode == "F16x3" else 1000.0
        if rng.randint(0, 8) == 7:
            # values near the top of the type's range (IRAF's INDEF is 1.6e38; FLT_MAX is a common blank value): the sum
            # of four does not fit the type although their mean does
            scale = {"F32": 2.0e38, "F64": 1.0e300, "F16x3": 4.0e4}[mode]
        # value range per leaf: mostly mixed sign, sometimes entirely negative / entirely positive / straddling zero tightly
        off = (0.2, 0.2, 1.5, 0.0, 0.5)[rng.randint(0, 5)] if style != 3 else 0.0
        arr = (rng.random_sample(shape) * scale - off * scale).astype(dt)
        clip = rng.randint(0, 6)
        if clip == 4:
            arr = np.maximum(arr, 0)        # smallest value exactly 0.0
        elif clip == 5:
            arr = np.minimum(arr, 0)        # largest value exactly 0.0
        undefined = np.zeros((256, 256), dtype=bool)
        if style == 1:
            undefined = rng.random_sample((256, 256)) < 0.4
        elif style == 2:
            undefined[:, :] = True
            y0, x0 = rng.randint(0, 200, 2)
            undefined[y0:y0 + rng.randint(1, 56), x0:x0 + rng.randint(1, 56)] = False
        elif style == 4:
            undefined[:, :] = True
        arr[undefined] = np.nan
        if mode == "F16x3" and rng.randint(0, 3) == 0:
            # a bad sample in one band only: toasty treats a three-plane pixel as undefined as soon as one of its
            # channels is NaN (Image.update_into_maskable_buffer, is_completely_masked), so it must not contribute
            for _ in range(200):
                yy, xx = rng.randint(0, 256, 2)
                arr[yy, xx, rng.randint(0, 3)] = np.nan
        # saturated / overflowed samples: infinities are defined values (only NaN means undefined)
        ninf = (0, 0, 0, 3, 40)[rng.randint(0, 5)] if allow_inf else 0
        for _ in range(ninf):
            yy, xx = rng.randint(0, 256, 2)
            arr[yy, xx] = np.inf if rng.randint(0, 3) else -np.inf
        if np.all(np.isnan(arr)):
            return None
        return arr
    if mode in ("I16", "I32", "U8"):
        dt = DTYPES[mode]
        hi = {"I16": 32767, "I32": 2 ** 31 - 1, "U8": 255}[mode]       # full positive range: sums of four need > 24 / 32 bits
        arr = rng.randint(1, hi, (256, 256)).astype(dt)
        if style == 1:
            arr[rng.random_sample((256, 256)) < 0.4] = 0
        return arr
    if mode == "RGB":
        if const is not None:
            arr = np.empty((256, 256, 3), dtype=np.uint8)
            arr[...] = const
            return arr
        return rng.randint(0, 256, (256, 256, 3)).astype(np.uint8)
    if mode == "RGBA":
        arr = rng.randint(0, 256, (256, 256, 4)).astype(np.uint8)
        if style == 0:
            arr[..., 3] = 255
        elif style == 1:
            arr[..., 3] = np.where(rng.random_sample((256, 256)) < 0.4, 0, 255)
        elif style == 2:
            arr[..., 3] = rng.randint(0, 256, (256, 256))
        elif style == 3:
            # almost transparent: averages to alpha 0 one level up
            arr[..., 3] = 0
            arr[::2, ::2, 3] = rng.randint(1, 4)
        else:
            arr[..., 3] = 0
        if np.all(arr[..., 3] == 0):
            return None
        return arr
    raise ValueError(mode)


def undefined_mosaic(mode):
    if mode in ("F32", "F64"):
        return np.full((512, 512), np.nan, dtype=DTYPES[mode])
    if mode == "F16x3":
        return np.full((512, 512, 3), np.nan, dtype=np.float16)
    if mode in ("I16", "I32", "U8"):
        return np.zeros((512, 512), dtype=DTYPES[mode])
    return np.zeros((512, 512, 4), dtype=np.uint8)


def place(mosaic, child, mode, rows, cols):
    """Lay a child's display-orientation array into the mosaic with the mask semantics of its mode."""
    if child.ndim == 3 and child.shape[2] == 3 and mosaic.ndim == 3 and mosaic.shape[2] == 4:
        mosaic[rows, cols, :3] = child
        mosaic[rows, cols, 3] = 255
    elif mosaic.ndim == 3 and mosaic.shape[2] == 4:
        sub = mosaic[rows, cols]
        vis = child[..., 3] != 0
        sub[vis] = child[vis]
    elif mode == "F16x3":
        sub = mosaic[rows, cols]
        ok = ~np.any(np.isnan(child), axis=2)
        sub[ok] = child[ok]
    elif mode in ("F32", "F64"):
        mosaic[rows, cols] = child
    else:
        mosaic[rows, cols] = np.maximum(child, 0)


def reduce2x2(m):
    a, b, c, d = m[0::2, 0::2], m[0::2, 1::2], m[1::2, 0::2], m[1::2, 1::2]
    if m.dtype.kind == "f":
        dt = m.dtype.type
        acc = np.float64
        n = np.zeros(a.shape, dtype=np.int64)
        tot = np.zeros(a.shape, dtype=acc)
        for q in (a, b, c, d):
            ok = ~np.isnan(q)
            n += ok
            tot += np.where(ok, q, 0).astype(acc)
        with np.errstate(all="ignore"):
            out = tot / n
        out[n == 0] = np.nan
        return out.astype(dt)
    tot = a.astype(np.float64) + b + c + d
    return (tot / 4.0).astype(m.dtype)


def entirely_undefined(arr, mode_kind):
    if arr.dtype.kind == "f":
        return bool(np.all(np.isnan(arr)))
    if arr.ndim == 3 and arr.shape[2] == 4:
        return bool(np.all(arr[..., 3] == 0))
    return False


def nearest_merger(big):
    """A user-supplied merger as the Merger Protocol allows: keeps one sample of every 2x2 block (categorical / mask
    data). Returns a *view* of its argument."""
    return big[::2, ::2]


def blockmax_merger(big):
    s = (big.shape[0] // 2, 2, big.shape[1] // 2, 2) + big.shape[2:]
    import warnings
    with warnings.catch_warnings():
        warnings.simplefilter("ignore")
        if big.dtype.kind == "f":
            return np.nanmax(big.reshape(s), axis=(1, 3)).astype(big.dtype)
        return np.max(big.reshape(s), axis=(1, 3)).astype(big.dtype)


MERGERS = {"stock": None, "nearest_view": nearest_merger, "blockmax": blockmax_merger}


def ref_merge(kind, mosaic, bottom_up):
    """Reference result of merger `kind` on a display-oriented mosaic (the merger itself sees the stored orientation)."""
    if kind == "stock":
        return reduce2x2(mosaic)
    if kind == "nearest_view":
        return (mosaic[1::2, ::2] if bottom_up else mosaic[::2, ::2]).copy()
    a, b, c, d = mosaic[0::2, 0::2], mosaic[0::2, 1::2], mosaic[1::2, 0::2], mosaic[1::2, 1::2]
    if mosaic.dtype.kind == "f":
        with np.errstate(all="ignore"):
            return np.fmax(np.fmax(a, b), np.fmax(c, d))
    return np.maximum(np.maximum(a, b), np.maximum(c, d))


def reference_cascade(leaves, fmt, mode, start, merger="stock"):
    """leaves: {Pos: stored array}.  Returns {Pos: stored array} for all levels < start."""
    bottom_up = fmt == "fits"
    cur = {p: (a[::-1] if bottom_up else a) for p, a in leaves.items()}
    out = {}
    for level in range(start - 1, -1, -1):
        parents = {}
        seen = set()
        for cp in cur:
            pp = Pos(level, cp.x >> 1, cp.y >> 1)
            if pp in seen:
                continue
            seen.add(pp)
            mosaic = undefined_mosaic(mode)
            for j in (0, 1):
                for i in (0, 1):
                    ch = cur.get(Pos(level + 1, 2 * pp.x + i, 2 * pp.y + j))
                    if ch is not None:
                        place(mosaic, ch, mode, slice(j * 256, j * 256 + 256), slice(i * 256, i * 256 + 256))
            merged = ref_merge(merger, mosaic, bottom_up)
            if fmt == "jpg":
                merged = merged[..., :3]
            if entirely_undefined(merged, mode):
                continue
            parents[pp] = merged
        for p, a in parents.items():
            out[p] = a[::-1] if bottom_up else a
        cur = parents
    return out


def tiles_match(real, ref, fmt, levels, maxabs):
    real = np.asarray(real)
    # colour tiles: an opaque RGBA tile and the RGB tile with the same colours are the same picture
    if real.ndim == 3 and ref.ndim == 3 and real.shape[:2] == ref.shape[:2] and {real.shape[2], ref.shape[2]} == {3, 4} \
            and real.dtype == np.uint8 and ref.dtype == np.uint8:
        four, three = (real, ref) if real.shape[2] == 4 else (ref, real)
        if np.all(four[..., 3] == 255):
            if real.shape[2] == 4:
                real = real[..., :3]
            else:
                ref = ref[..., :3]
    if real.shape != ref.shape:
        return "shape %s, expected %s" % (real.shape, ref.shape)
    if ref.dtype.kind == "f":
        if real.dtype.kind != "f" or real.dtype.itemsize != ref.dtype.itemsize:
            return "dtype %s, expected %s" % (real.dtype, ref.dtype)
        rn, fn = np.isnan(real), np.isnan(ref)
        if not np.array_equal(rn, fn):
            return "undefined-pixel pattern differs at %d pixels" % int(np.sum(rn != fn))
        tol = 16.0 * float(np.finfo(ref.dtype).eps) * max(1, levels) * max(maxabs, 1.0)
        with np.errstate(all="ignore"):
            diff = np.abs(real.astype(np.float64) - ref.astype(np.float64))
        diff[fn] = 0
        diff[real == ref] = 0           # equal infinities
        diff[np.isnan(diff)] = np.inf   # an infinity against a finite value or the opposite infinity
        if diff.max() > tol:
            k = np.unravel_index(np.argmax(diff), diff.shape)
            return "pixel %s is %r, expected %r (|diff| %.3g > tol %.3g); %d pixels differ" % (k, real[k], ref[k], diff.max(), tol, int(np.sum(diff > tol)))
        return None
    if fmt == "jpg":
        diff = np.abs(real.astype(np.int32) - ref.astype(np.int32))
        # chroma upsampling blends colours across tile-quadrant boundaries: compare only pixels
        # whose +-9 pixel neighbourhood is constant in the reference
        flat = np.ones(ref.shape[:2], dtype=bool)
        for dy in (-9, 0, 9):
            for dx in (-9, 0, 9):
                if dy or dx:
                    flat &= np.all(np.roll(ref, (dy, dx), axis=(0, 1)) == ref, axis=2)
        diff[~flat] = 0
        if diff.max() > 6 * max(1, levels):
            k = np.unravel_index(np.argmax(diff), diff.shape)
            return "jpg pixel %s is %s, expected about %s" % (k, real[k], ref[k])
        return None
    if real.dtype.kind != ref.dtype.kind or real.dtype.itemsize != ref.dtype.itemsize:
        return "dtype %s, expected %s" % (real.dtype, ref.dtype)
    if not np.array_equal(real, ref):
        nd = int(np.sum(real != ref))
        k = tuple(np.argwhere(real != ref)[0])
        return "%d values differ, e.g. %s is %s, expected %s" % (nd, k, real[k], ref[k])
    return None


def all_positions(max_level):
    return [Pos(n, x, y) for n in range(max_level + 1) for y in range(2 ** n) for x in range(2 ** n)]


def list_tiles(d, fmt, scheme="L/Y/YX", pio=None, candidates=None):
    """Positions that have a tile file.  With `pio` and `candidates` the files are attributed through toasty's own
    tile_path() (how a scheme spells its file names is not part of the cascade / sampling / tiling properties - that
    is C17's subject); a file that belongs to no candidate position shows up as a position of level -1."""
    import re
    found = set()
    if pio is not None and candidates is not None:
        by_path = {os.path.abspath(pio.tile_path(p, format=fmt, makedirs=False)): p for p in candidates}
        stray = 0
        for root, _dirs, files in os.walk(d):
            for f in files:
                if f.endswith("." + fmt):
                    p = by_path.get(os.path.abspath(os.path.join(root, f)))
                    if p is None:
                        stray += 1
                        p = Pos(-1, stray, 0)
                    found.add(p)
        return found
    for root, _dirs, files in os.walk(d):
        for f in files:
            if f.endswith("." + fmt):
                rel = os.path.relpath(os.path.join(root, f), d).split(os.sep)
                if scheme == "L/Y/YX" and len(rel) == 3 and rel[0].isdigit():
                    n = int(rel[0])
                    y = int(rel[1])
                    x = int(rel[2].split("_")[1].split(".")[0])
                    found.add(Pos(n, x, y))
                elif scheme == "LXY" and len(rel) == 1:
                    m = re.fullmatch(r"L(\d+)X(\d+)Y(\d+)\.[A-Za-z0-9]+", rel[0])
                    if m:
                        found.add(Pos(int(m.group(1)), int(m.group(2)), int(m.group(3))))
    return found


def run_core(ch, env, prop):
    c14 = prop == "C14"
    combos = FITS_COMBOS if c14 else COMBOS
    fmt, mode = combos[ch.draw(len(combos), kind="combo")]
    start = 1 + ch.draw(3, p0=0.45, kind="start")
    if ch.draw(10, kind="single_tile_pyramid") == 9:
        start = 0       # the whole data set is one tile: nothing to merge, but the range still has to reach the image set
    workers = (2, 1, 3, 5)[ch.draw(4, kind="workers")]
    p_pop = (0.5, 0.2, 0.9, 1.0)[ch.draw(4, kind="p_populated")]
    seed = ch.draw(1 << 16, kind="content_seed")
    use_filter = ch.draw(4, kind="use_filter") == 3
    via_builder = c14 and ch.draw(2, kind="via_builder") == 1     # Builder.cascade always uses the stock merger
    scheme = ("L/Y/YX", "LXY")[ch.draw(2, p0=0.75, kind="scheme")]
    rng = np.random.RandomState(seed)
    leaves = {}
    # one run in twelve cascades a deep, almost empty pyramid (start level 9-11: level-dependent code paths, large tile
    # indices) through a TOAST filter that accepts the populated paths
    deep = ch.draw(12, kind="deep_cascade") == 11 and fmt != "jpg"     # lossy re-encoding over 10 levels says nothing
    if deep:
        start = (10, 11, 9)[ch.draw(3, kind="deep_start")]
        use_filter = True
        p_pop = 1.0
        x0, y0 = ch.draw(2 ** start, kind="deep_x"), ch.draw(2 ** start, kind="deep_y")
        cand = [Pos(start, x0, y0), Pos(start, x0 ^ 1, y0), Pos(start, x0, y0 ^ 1), Pos(start, (x0 + 2) % 2 ** start, y0),
                Pos(start, (x0 + 37) % 2 ** start, (y0 + 511) % 2 ** start)]
        allpos = cand[:1 + ch.draw(5, kind="deep_nleaves")]
    else:
        allpos = [Pos(start, x, y) for y in range(2 ** start) for x in range(2 ** start)]
    nstyles = 5
    for p in allpos:
        if ch.draw(2, p0=p_pop, kind="leaf_populated") == 0:
            style = ch.draw(nstyles, kind="leaf_style")
            const = None
            if fmt == "jpg":
                const = (rng.randint(0, 256), rng.randint(0, 256), rng.randint(0, 256))
            leaf_mode = mode
            if mode == "RGBmix":
                leaf_mode = ("RGB", "RGBA")[rng.randint(0, 2)]
            arr = gen_leaf(rng, leaf_mode, style, const, allow_inf=not c14)
            if arr is not None:
                leaves[p] = arr
    if not leaves:
        arr = gen_leaf(rng, "RGB" if mode == "RGBmix" else mode, 0, (10, 200, 90) if fmt == "jpg" else None)
        leaves[allpos[0]] = arr
    # the merger is the caller's: mostly the stock one, sometimes a user-supplied one (placement / existence hold for all)
    merger_kind = "stock"
    if not c14:
        mk = ch.draw(8, kind="merger")
        if mk == 6 and fmt != "jpg":        # lossless formats only: decimation does not smooth JPEG ringing away
            merger_kind = "nearest_view"
        elif mk == 7 and mode in ("F32", "F64", "U8", "I16", "I32") and fmt != "jpg":
            merger_kind = "blockmax"
    ref = reference_cascade(leaves, fmt, mode, start, merger_kind)
    maxabs = 0.0
    if DTYPES.get(mode, np.uint8)(0).dtype.kind == "f":
        maxabs = max(float(np.max(np.abs(a.astype(np.float64))[np.isfinite(a)], initial=0.0)) for a in leaves.values())

    d = env.fresh_dir()
    # the pyramid lives in a directory a user might have named (glob metacharacters, spaces, dots)
    dname = ("pyr", "pyr", "M31 mosaic [v2]", "a*b?c", "out.d/x y")[ch.draw(5, kind="directory_name")]
    d = os.path.join(d, dname)
    os.makedirs(d)
    pio = PyramidIO(d, scheme=scheme, default_format=fmt)
    # one run in three writes its float / integer leaves the way the tiling workflows do: through two locked updates
    # (upper half, then lower half) instead of one write
    via_updates = mode in ("F32", "F64", "I16", "I32") and ch.draw(3, kind="leaves_via_updates") == 2
    # one npy pyramid in four holds its leaves in big-endian byte order, as tiles sampled from FITS data do
    # (np.save records the byte order of what it is given)
    big_endian = fmt == "npy" and mode in ("F32", "F64", "I16", "I32") and not via_updates and ch.draw(4, kind="leaf_byte_order") == 3
    for p, a in leaves.items():
        if via_updates:
            src = Image.from_array(a.copy())
            for rows in (slice(0, 100), slice(100, 256)):
                with pio.update_image(p, masked_mode=src.mode, default="masked") as basis:
                    src.update_into_maskable_buffer(basis, rows, slice(None), rows, slice(None))
        elif big_endian:
            pio.write_image(p, Image.from_array(a.astype(a.dtype.newbyteorder(">"))))
        else:
            pio.write_image(p, Image.from_array(a.copy()))
    # stale parents where at least one child tile will exist
    n_stale = 0
    have = set(leaves) | set(ref)
    stale_positions = []
    parent_cands = sorted({Pos(c.n - 1, c.x >> 1, c.y >> 1) for c in have if c.n >= 1}, key=lambda q: (-q.n, q.x, q.y))
    for pp in parent_cands:
        if ch.draw(2, p0=0.75, kind="stale") == 1:
            stale_positions.append(pp)
    for pp in stale_positions:
        junk = gen_leaf(np.random.RandomState(7), "RGBA" if (fmt == "png" or (fmt == "npy" and mode in ("RGB", "RGBA"))) else mode, 0, (1, 2, 3) if fmt == "jpg" else None)
        if fmt == "jpg":
            junk = gen_leaf(np.random.RandomState(7), "RGB", 0, (1, 2, 3))
        pio.write_image(pp, Image.from_array(junk))
        n_stale += 1
    accepted_extra = set()
    tile_filter = None
    if use_filter:
        must = set()
        for p in leaves:
            q = p
            while q.n >= 1:
                must.add(q)
                q = Pos(q.n - 1, q.x >> 1, q.y >> 1)
        if deep:
            for q in sorted(must, key=tuple):
                if ch.draw(4, kind="filter_extra") == 3:
                    accepted_extra.add(Pos(q.n, q.x ^ 1, q.y))      # accepted, nothing beneath it
            accepted_extra -= must
        else:
            for p in common.all_positions_dfs(start, lo=1):
                if p not in must and ch.draw(2, kind="filter_extra") == 1:
                    accepted_extra.add(p)
        acc = must | accepted_extra
        tile_filter = lambda t: t.pos in acc  # noqa: E731

    sparse = any(sum(1 for c in pos_children(pp) if c in have) < 4 for pp in ref)
    res = {"config": {"format": fmt, "mode": mode, "start": start, "workers": workers, "n_leaves": len(leaves),
                      "leaves": sorted(tuple(p) for p in leaves)[:24], "n_stale": n_stale, "filter": use_filter,
                      "via_builder": via_builder, "merger": merger_kind, "directory": dname, "content_seed": seed, "n_parents_expected": len(ref), "scheme": scheme},
           "extra": {"combo_%s_%s" % (fmt, mode): 1, "workers_%d" % workers: 1, "start_%d" % start: 1},
           "probes": {"stale_parent_planted": n_stale, "sparse_parent": int(sparse), "with_filter": int(use_filter),
                      "parallel_runs": int(workers > 1),
                      "deep_cascade": int(deep), "user_merger": int(merger_kind != "stock"), "big_endian_leaves": int(big_endian),
                      "merged_all_undefined": int(any(pp not in ref for pp in parent_cands))}}

    common.draw_progress(ch, res)
    sim = Sim(ch, step_cap=60000)
    sim.rootdir = d
    sim.write_yields = (2, 1, 0)[ch.draw(3, kind="write_yields")]
    res["config"].update(common.sched_config(sim))
    builder_box = {}

    def main():
        if via_builder:
            from toasty.builder import Builder
            b = Builder(pio)
            b.imgset.tile_levels = start
            kw = {"parallel": workers}
            if tile_filter is not None:
                kw["tile_filter"] = tile_filter
            b.cascade(**dict(kw, **common.pkw()))
            builder_box["b"] = b
        else:
            cascade_images(pio, start, MERGERS[merger_kind] or averaging_merger, parallel=workers, tile_filter=tile_filter, **common.pkw())

    main_task = sim.run(main)
    common.sim_summary(sim, res)
    import hashlib
    res["digest"] = hashlib.sha1((res["digest"] + repr(sorted(res["config"].items()))).encode()).hexdigest()
    res["nontrivial"] = bool(res.get("nontrivial")) or len(ref) >= 2
    what = "cascade(start=%d, %s/%s, parallel=%d%s)" % (start, fmt, mode, workers, ", filtered" if use_filter else "")
    if sim.status != "returned":
        res["violation"] = viol(prop, "does-not-return", "%s did not return: %s at step %d" % (what, sim.status, sim.step))
        return res
    if main_task.exc is not None:
        res["violation"] = viol(prop, "raised", "%s raised %r\n%s" % (what, main_task.exc, (main_task.exc_tb or "")[-800:]))
        return res
    if sim.stderr:
        res["violation"] = viol(prop, "worker-traceback", "%s: a worker failed: %s" % (what, sim.stderr[0][-800:]))
        return res

    if deep:
        cands = set(leaves)
        for p in list(leaves):
            q = p
            while q.n >= 1:
                q = Pos(q.n - 1, q.x >> 1, q.y >> 1)
                cands.add(q)
        for q in list(cands):
            cands.update(Pos(q.n, q.x ^ i, q.y ^ j) for i in (0, 1) for j in (0, 1))
    else:
        cands = all_positions(start)
    on_disk = list_tiles(d, fmt, scheme, pio=pio, candidates=cands)
    above = {p for p in on_disk if p.n < start}
    if not c14:
        if above != set(ref):
            extra = sorted(tuple(p) for p in above - set(ref))
            missing = sorted(tuple(p) for p in set(ref) - above)
            kind = "missing-parent" if missing else "unexpected-parent"
            res["violation"] = viol(prop, kind, "%s: parent tiles on disk differ from the reference: missing %s, unexpected %s" % (what, missing[:5], extra[:5]))
            return res
        if {p for p in on_disk if p.n == start} != set(leaves):
            res["violation"] = viol(prop, "leaf-set-changed", "%s changed the set of leaf tiles" % what)
            return res
        for p in sorted(ref, key=lambda p: (-p.n, p.y, p.x)):
            img = pio.read_image(p)
            msg = tiles_match(img.asarray(), ref[p], fmt, start - p.n, maxabs)
            if msg:
                res["violation"] = viol(prop, "wrong-pixels", "%s: tile %s: %s" % (what, tuple(p), msg))
                return res
        return res

    # ---- C14: FITS data range --------------------------------------------
    from astropy.io import fits
    leafrange = {}
    for p, a in leaves.items():
        fin = a[np.isfinite(a)] if a.dtype.kind == "f" else a.ravel()
        leafrange[p] = (fin.min(), fin.max())
    for p in sorted(on_disk, key=lambda p: (-p.n, p.y, p.x)):        # leaves too: "every tile"
        s = start - p.n
        mins = [r[0] for q, r in leafrange.items() if (q.x >> s) == p.x and (q.y >> s) == p.y]
        maxs = [r[1] for q, r in leafrange.items() if (q.x >> s) == p.x and (q.y >> s) == p.y]
        with fits.open(pio.tile_path(p, makedirs=False)) as hdul:
            hdr = hdul[0].header
            got = (hdr.get("DATAMIN"), hdr.get("DATAMAX"))
        if not mins:
            continue
        want = (min(mins), max(maxs))
        if got[0] is None or got[1] is None:
            res["violation"] = viol(prop, "range-missing", "%s: tile %s has no DATAMIN/DATAMAX (got %s)" % (what, tuple(p), got))
            return res
        if np.float32(got[0]) != np.float32(want[0]) or np.float32(got[1]) != np.float32(want[1]):
            res["violation"] = viol(prop, "wrong-range", "%s: tile %s records DATAMIN/DATAMAX %r but the leaf tiles beneath it span %r" % (
                what, tuple(p), got, (float(want[0]), float(want[1]))))
            return res
    if via_builder and Pos(0, 0, 0) in on_disk:
        b = builder_box["b"]
        s = start
        want = (min(r[0] for r in leafrange.values()), max(r[1] for r in leafrange.values()))
        if np.float32(b.imgset.data_min) != np.float32(want[0]) or np.float32(b.imgset.data_max) != np.float32(want[1]):
            res["violation"] = viol(prop, "wrong-imageset-range", "%s: image set data range (%r, %r) but the leaves span %r" % (
                what, b.imgset.data_min, b.imgset.data_max, (float(want[0]), float(want[1]))))
    return res


def run_one(ch, env):
    return run_core(ch, env, PROP)
