"""C09 - tiling images on a common TAN grid equals tiling the assembled
mosaic.  The real collection.load -> MultiTanProcessor -> tile pipeline under
the scheduler (real SoftFileLock on shared tiles) against (a) the real
single-image route and (b) an independent numpy cut.  DESIGN.md 5.5."""

import glob
import os

import numpy as np

from toasty import collection
from toasty.builder import Builder
from toasty.image import Image
from toasty.multi_tan import MultiTanProcessor
from toasty.pyramid import Pos, PyramidIO
from toasty.study import StudyTiling

from ..kernel import Sim
from . import common, fitsgen
from .common import viol
from .c02 import list_tiles

PROP = "C09"
LEVEL = "exploration"
RULE = ("one run = one generated mosaic cut into 1-6 (possibly overlapping, NaN-bordered, holed) rectangles written as FITS files "
        "with a common TAN grid (CD-matrix headers), each bottom-up or top-down, in a drawn input order; tiled with the real "
        "MultiTanProcessor into fits or npy tiles with 1-4 workers under one seeded schedule (queue handshake, lock create / poll / "
        "read / torn write / unlink); compared with the real single-image route on the pasted mosaic and with an independent "
        "numpy cut; non-trivial = >= 2 input images; distinct = distinct sha1 of (scheduler trace + workload description)")
COMPONENTS = {
    "real": ["collection.load / SimpleFitsCollection", "MultiTanProcessor.compute_global_pixelization/tile/_mp_tile_worker",
             "StudyTiling (+ compute_for_subimage)", "PyramidIO.update_image + filelock.SoftFileLock", "Image.flip_parity / update_into_maskable_buffer",
             "Builder.apply_wcs_info (wwt_data_formats)", "astropy.io.fits / astropy.wcs", "real files on tmpfs"],
    "stub": ["multiprocessing.Queue/Event/Process (model)", "clock", "file write atomicity model"],
}
ASSUMPTIONS = [
    "input headers are in CD-matrix form with integer / half-integer reference pixels (toasty loudly rejects collections that mix CDELT-form top-down with flipped bottom-up files; that rejection is not a C09 violation)",
    "overlapping inputs agree in value (as the property states)",
    "astrometric fields are compared with relative tolerance 1e-9 between the two real routes",
    "the multiprocessing model is faithful; one shared pid for filelock",
]
MANIFEST = {
    "text": "seeded exploration: real multi-TAN study tiling of generated FITS collections under the simulator (worker/feeder/lock interleavings, torn tile writes), differential against the real single-image tiling of the pasted mosaic (deepest-level tiles bit-exact, same file set; image-set centre / scale / rotation / offsets / tile levels equal) plus an independent numpy cut of the centred power-of-two square; no lock file may remain. Sampling, not proof.",
    "design_ref": "DESIGN.md 5.5",
    "note": "trusted: astropy WCS/FITS; wwt_data_formats for the astrometry both routes share; the multiprocessing model",
    "technique": "deterministic simulation: seeded schedule search over multi-image tiling (queue handshake + file-lock interleavings); differential oracle vs single-image route and numpy reference",
}
BUDGET = {"quick": (260, 75), "thorough": (100000, 1500)}
REQUIRED_PROBES = {"quick": ["shared_tile", "overlapping_inputs", "mixed_parity", "lock_contended"],
                   "thorough": ["shared_tile", "overlapping_inputs", "mixed_parity", "lock_contended", "multi_level", "three_levels", "image_in_extension_hdu", "blankval_sentinel"]}
CHUNK = 4
SELFTEST_EVERY = 40
FRESH_SELFTEST = 4

IMGSET_FIELDS = ["center_x", "center_y", "base_degrees_per_tile", "rotation_deg", "offset_x", "offset_y", "tile_levels",
                 "bottoms_up", "width_factor", "projection", "base_tile_level", "data_set_type"]
PLACE_FIELDS = ["ra_hr", "dec_deg", "zoom_level"]


def compare_descr(b1, b2):
    for f in IMGSET_FIELDS:
        v1, v2 = getattr(b1.imgset, f, None), getattr(b2.imgset, f, None)
        if isinstance(v1, float) or isinstance(v2, float):
            if not np.isclose(v1, v2, rtol=1e-9, atol=1e-12):
                return "image set %s: %r (multi-image route) vs %r (assembled mosaic)" % (f, v1, v2)
        elif v1 != v2:
            return "image set %s: %r (multi-image route) vs %r (assembled mosaic)" % (f, v1, v2)
    for f in PLACE_FIELDS:
        v1, v2 = getattr(b1.place, f, None), getattr(b2.place, f, None)
        if not np.isclose(v1, v2, rtol=1e-9, atol=1e-12):
            return "place %s: %r vs %r" % (f, v1, v2)
    return None


def tile_equal(a, b):
    a = np.asarray(a)
    b = np.asarray(b)
    return a.shape == b.shape and bool(np.array_equal(a.astype(np.float64), b.astype(np.float64), equal_nan=True))


def run_one(ch, env):
    col = fitsgen.draw_collection(ch)
    fmt = ("fits", "npy")[ch.draw(2, kind="tile_format")]
    workers = (2, 1, 3, 4)[ch.draw(4, kind="workers")]
    scheme = ("L/Y/YX", "LXY")[ch.draw(2, p0=0.75, kind="scheme")]
    d = env.fresh_dir()
    fitsgen.write_collection(col, os.path.join(d, "in"))
    P = fitsgen.pasted_mosaic(col)
    out1 = os.path.join(d, "multi")
    out2 = os.path.join(d, "single")
    levels, ref_tiles = fitsgen.numpy_tiles(col, P, fmt == "fits")
    rects = col.rects
    overlapping = any(not (a["r0"] + a["h"] <= b["r0"] or b["r0"] + b["h"] <= a["r0"] or a["c0"] + a["w"] <= b["c0"] or b["c0"] + b["w"] <= a["c0"])
                      for i, a in enumerate(rects) for b in rects[i + 1:])
    res = {"config": dict(fitsgen.describe(col), tile_format=fmt, workers=workers, tile_levels=levels, scheme=scheme),
           "extra": {"fmt_" + fmt: 1, "workers_%d" % workers: 1, "n_images_%d" % len(rects): 1},
           "probes": {"overlapping_inputs": int(overlapping), "mixed_parity": int(len({r["bottom_up"] for r in rects}) == 2),
                      "multi_level": int(levels >= 1), "three_levels": int(levels >= 3),
                      "image_in_extension_hdu": int(any(r.get("in_extension") for r in rects)), "blankval_sentinel": int(col.blankval is not None)}}
    if np.all(np.isnan(P)):
        res["digest"] = "all-undefined"
        return res

    common.draw_progress(ch, res)
    sim = Sim(ch, step_cap=80000)
    sim.rootdir = d
    sim.write_yields = (2, 1, 0)[ch.draw(3, kind="write_yields")]
    res["config"].update(common.sched_config(sim))
    touched = {}

    def on_lock(kind, rel):
        if kind == "acquire":
            from ..kernel import current_task
            touched.setdefault(rel, set()).add(current_task().name)

    sim.on_lock = on_lock
    box = {}

    def main():
        coll = fitsgen.load_collection(col)
        pio = PyramidIO(out1, scheme=scheme, default_format=fmt)
        b = Builder(pio)
        proc = MultiTanProcessor(coll)
        proc.compute_global_pixelization(b)
        proc.tile(pio, parallel=workers, **common.pkw())
        box["builder"] = b

    main_task = sim.run(main)
    common.sim_summary(sim, res)
    import hashlib
    res["digest"] = hashlib.sha1((res["digest"] + repr(sorted(res["config"].items(), key=str))).encode()).hexdigest()
    res["nontrivial"] = len(rects) >= 2
    res["probes"]["shared_tile"] = int(any(len(v) >= 2 for v in touched.values()))
    what = "multi-TAN tiling (%d inputs, %s tiles, parallel=%d)" % (len(rects), fmt, workers)
    if sim.status != "returned":
        res["violation"] = viol(PROP, "does-not-return", "%s did not return: %s at step %d; blocked %s" % (what, sim.status, sim.step, [(t.name, t.waiting_op) for t in sim.tasks if t.state == "blocked"][:6]))
        return res
    if main_task.exc is not None:
        res["violation"] = viol(PROP, "raised", "%s raised %r\n%s" % (what, main_task.exc, (main_task.exc_tb or "")[-900:]))
        return res
    if sim.stderr:
        res["violation"] = viol(PROP, "worker-traceback", "%s: a worker failed: %s" % (what, sim.stderr[0][-900:]))
        return res

    # (a) the real single-image route on the pasted mosaic
    pio2 = PyramidIO(out2, scheme=scheme, default_format=fmt)
    b2 = Builder(pio2)
    wcs = fitsgen.mosaic_wcs(col)
    img = Image.from_array(P.copy(), wcs=wcs)
    tiling = StudyTiling(col.W, col.H)
    tiling.apply_to_imageset(b2.imgset)
    b2.apply_wcs_info(wcs, col.W, col.H)
    tiling.tile_image(img, pio2)

    pio1 = PyramidIO(out1, scheme=scheme, default_format=fmt)
    from .c02 import all_positions
    t1 = list_tiles(out1, fmt, scheme, pio=pio1, candidates=all_positions(levels))
    t2 = list_tiles(out2, fmt, scheme, pio=pio2, candidates=all_positions(levels))
    tref = {Pos(*k) for k in ref_tiles}
    if t2 != tref:
        res["harness_error"] = "single-image route and numpy cut disagree on the tile set: %s vs %s" % (sorted(t2 - tref), sorted(tref - t2))
        return res
    if t1 != t2:
        res["violation"] = viol(PROP, "tile-set-differs", "%s: tile files differ from tiling the assembled mosaic: missing %s, unexpected %s" % (
            what, sorted(tuple(p) for p in t2 - t1)[:6], sorted(tuple(p) for p in t1 - t2)[:6]))
        return res
    for p in sorted(t2, key=tuple):
        a1 = pio1.read_image(p).asarray()
        a2 = pio2.read_image(p).asarray()
        if not tile_equal(a2, ref_tiles[tuple(p)]):
            res["harness_error"] = "single-image route and numpy cut disagree on tile %s" % (tuple(p),)
            return res
        if not tile_equal(a1, a2):
            nd = int(np.sum(~((a1 == a2) | (np.isnan(a1) & np.isnan(a2))))) if a1.shape == a2.shape else -1
            res["violation"] = viol(PROP, "wrong-pixels", "%s: tile %s differs from the tile of the assembled mosaic at %d pixels" % (what, tuple(p), nd))
            return res
    msg = compare_descr(box["builder"], b2)
    if msg:
        res["violation"] = viol(PROP, "astrometry-differs", "%s: %s" % (what, msg))
        return res
    locks = glob.glob(os.path.join(out1, "**", "*.lock"), recursive=True)
    if locks:
        res["violation"] = viol(PROP, "lock-file-left", "%s: lock files remain: %s" % (what, [os.path.relpath(l, out1) for l in locks][:5]))
    return res
