"""Seams between toasty and the operating system that the simulator owns:
the clock, lock-file creation / removal, and tile reads and (non-atomic) tile
writes.  Everything is a dispatcher: outside a simulated task the original
function is called unchanged.
"""

import io
import os
import time

from . import kernel
from .kernel import current_task

_installed = {}

EPOCH = 1_700_000_000.0


# -- clock -----------------------------------------------------------------

def _sleep(secs):
    t = current_task()
    if t is None:
        return _installed["sleep"](secs)
    t.sim.sleep(secs)


def _time():
    t = current_task()
    if t is None:
        return _installed["time"]()
    return EPOCH + t.sim.now + getattr(t.sim, "wall_offset", 0.0)


def _monotonic():
    t = current_task()
    if t is None:
        return _installed["monotonic"]()
    return 1000.0 + t.sim.now


def _perf_counter():
    t = current_task()
    if t is None:
        return _installed["perf_counter"]()
    return 1000.0 + t.sim.now


# -- process identity --------------------------------------------------------

FAKE_PID_BASE = 4_100_000      # above Linux pid_max: never a real process


def fake_pid(proc, mod=0):
    if proc == "main":
        return FAKE_PID_BASE
    digits = "".join(c for c in proc if c.isdigit())
    k = int(digits) if digits else 999
    if mod:
        k = 1 + k % mod         # processes on different hosts (pid namespaces) that happen to have equal pids
    return FAKE_PID_BASE + k


def _getpid():
    """toasty code running in a simulated process sees that process's own (fake, stable) pid, as it would after a
    real fork; everything else - in particular filelock, whose fork tracking and stale-lock breaking key on the real
    pid - keeps seeing the real one."""
    t = current_task()
    if t is not None:
        import sys
        caller = sys._getframe(1).f_globals.get("__name__", "")
        if caller == "toasty" or caller.startswith("toasty."):
            return fake_pid(t.proc, getattr(t.sim, "pid_mod", 0))
        if caller == "filelock._soft" and getattr(t.sim, "multi_host", False):
            # the identity the lock-file library writes into its markers (its fork tracking, in filelock._api, keeps
            # the real pid): pids of other hosts do not exist here
            return fake_pid(t.proc, 0) + 50000
    return _installed["os.getpid"]()


# -- lock files --------------------------------------------------------------

def _os_open(path, flags, mode=0o777, *, dir_fd=None):
    t = current_task()
    if t is not None and isinstance(path, (str, os.PathLike)):
        p = os.fspath(path)
        if isinstance(p, str) and p.endswith(".lock") and (flags & os.O_EXCL):
            sim = t.sim
            sim.yield_point("lock.create %s" % sim.rel(p))
            try:
                fd = _installed["os.open"](path, flags, mode, dir_fd=dir_fd)
            except FileExistsError:
                sim.probe("lock_contended")
                sim.log(t.name, "lock.busy %s" % sim.rel(p))
                hook = getattr(sim, "on_lock", None)
                if hook is not None:
                    hook("busy", sim.rel(p))
                raise
            # lock files are stamped with the simulated wall clock (applied when somebody looks: the holder still
            # writes its identity into the file after this open)
            if not hasattr(sim, "lock_birth"):
                sim.lock_birth = {}
            sim.lock_birth[p] = EPOCH + sim.now + getattr(sim, "wall_offset", 0.0)
            hook = getattr(sim, "on_lock", None)
            if hook is not None:
                hook("acquire", sim.rel(p))
            return fd
    return _installed["os.open"](path, flags, mode, dir_fd=dir_fd)


def _make_stat(name):
    def fn(path, *a, **kw):
        t = current_task()
        if t is not None and isinstance(path, str) and path.endswith(".lock"):
            birth = getattr(t.sim, "lock_birth", {}).get(path)
            if birth is not None:
                try:
                    os.utime(path, (birth, birth))
                except OSError:
                    pass
        elif t is not None and isinstance(path, str):
            lf = getattr(t.sim, "load_fault", None)
            if lf is not None and hasattr(lf, "on_stat"):
                lf.on_stat(path)        # a file-server hiccup makes every access to the file fail, stat included
        return _installed["os." + name](path, *a, **kw)
    fn.__name__ = name
    return fn


def _os_unlink(path, *, dir_fd=None):
    t = current_task()
    if t is not None:
        p = os.fspath(path)
        if isinstance(p, str) and p.endswith(".lock"):
            sim = t.sim
            hook = getattr(sim, "on_lock", None)
            if hook is not None:
                hook("release", sim.rel(p))
            sim.yield_point("lock.unlink %s" % sim.rel(p))
        elif isinstance(p, str) and t.sim.rootdir and p.startswith(t.sim.rootdir):
            # removing a tile (or any other file of the simulated directory tree) is visible to peers
            t.sim.yield_point("unlink %s" % t.sim.rel(p))
    return _installed["os.unlink"](path, dir_fd=dir_fd)


def _os_remove(path, *, dir_fd=None):
    return _os_unlink(path, dir_fd=dir_fd)


def _make_rename(name):
    def fn(src, dst, *a, **kw):
        t = current_task()
        if t is not None:
            p = os.fspath(dst)
            if isinstance(p, str) and t.sim.rootdir and p.startswith(t.sim.rootdir):
                t.sim.yield_point("%s -> %s" % (name, t.sim.rel(p)))
        return _installed["os." + name](src, dst, *a, **kw)
    return fn


# -- tile I/O ----------------------------------------------------------------

def _lay_down(sim, path, data, unlink_first):
    """Write `data` to `path` the way a plain open(path,'wb').write() does as
    seen by other processes: truncate (or unlink, for FITS overwrite=True),
    then a prefix, then the rest - with a scheduling point in between, so a
    concurrent reader can observe an absent, empty or torn file."""
    rel = sim.rel(path)
    nyield = getattr(sim, "write_yields", 2)
    if unlink_first:
        try:
            _installed["os.unlink"](path)
        except FileNotFoundError:
            pass
        if nyield:
            sim.yield_point("write.unlinked %s" % rel)
    with open(path, "wb") as f:
        if nyield:
            f.flush()
            sim.yield_point("write.truncated %s" % rel)
        if nyield >= 2 and len(data) > 1:
            k = getattr(sim, "torn_split", None)
            if k is None:
                k = len(data) // 2
            else:
                k = max(1, min(len(data) - 1, int(len(data) * k)))
            f.write(data[:k])
            f.flush()
            wf = getattr(sim, "write_fault", None)
            if wf is not None:
                wf(path)            # may raise: the storage gave out in the middle of the file (a torn tile stays behind)
            sim.yield_point("write.partial %s" % rel)
            f.write(data[k:])
        else:
            wf = getattr(sim, "write_fault", None)
            if wf is not None:
                wf(path)
            f.write(data)
    sim.log(current_task().name, "write.done %s" % rel)


def _make_save(orig_save):
    def save(self, path_or_stream, format=None, mode=None, min_value=None, max_value=None):
        t = current_task()
        if t is None or not isinstance(path_or_stream, (str, os.PathLike)):
            return orig_save(self, path_or_stream, format=format, mode=mode,
                             min_value=min_value, max_value=max_value)
        sim = t.sim
        path = os.fspath(path_or_stream)
        fault = getattr(sim, "io_fault", None)
        if fault is not None:
            fault("write", sim.rel(path))
        buf = io.BytesIO()
        orig_save(self, buf, format=format, mode=mode, min_value=min_value, max_value=max_value)
        fmt = format or self._default_format
        _lay_down(sim, path, buf.getvalue(), unlink_first=(fmt == "fits"))
    return save


def _make_read_image(orig):
    def read_image(self, pos, default="none", masked_mode=None, format=None):
        t = current_task()
        if t is not None:
            sim = t.sim
            sim.yield_point("read %d/%d/%d" % (pos.n, pos.x, pos.y))
            fault = getattr(sim, "io_fault", None)
            if fault is not None:
                fault("read", "%d/%d/%d" % (pos.n, pos.x, pos.y))
            lf = getattr(sim, "load_fault", None)
            if lf is not None and hasattr(lf, "on_read_image"):
                lf.on_read_image(self.tile_path(pos, format=format, makedirs=False))
            hook = getattr(sim, "on_read", None)
            if hook is not None:
                img = orig(self, pos, default=default, masked_mode=masked_mode, format=format)
                hook(pos, img)
                return img
        return orig(self, pos, default=default, masked_mode=masked_mode, format=format)
    return read_image


def _make_write_image(orig):
    def write_image(self, pos, image, format=None, mode=None, min_value=None, max_value=None):
        t = current_task()
        if t is not None:
            sim = t.sim
            sim.yield_point("write %d/%d/%d" % (pos.n, pos.x, pos.y))
            hook = getattr(sim, "on_write", None)
            if hook is not None:
                hook(pos, image)
        return orig(self, pos, image, format=format, mode=mode, min_value=min_value, max_value=max_value)
    return write_image


class _SimThread(object):
    def __init__(self, target=None, args=(), kwargs=None, daemon=None, name=None):
        self._target, self._args, self._kwargs = target, tuple(args), dict(kwargs or {})
        self.daemon = daemon
        self._task = None

    def start(self):
        t = current_task()
        sim = t.sim
        sim.n_threads = getattr(sim, "n_threads", 0) + 1
        self._task = sim.spawn("thread%d-%s" % (sim.n_threads, t.proc), lambda: self._target(*self._args, **self._kwargs), proc=t.proc)
        sim.yield_point("thread.start")

    def join(self, timeout=None):
        t = current_task()
        task = self._task
        t.sim.block_until("thread.join", lambda: task.state == "done", timeout)

    def is_alive(self):
        return self._task is not None and self._task.state != "done"


class _ThreadingShim(object):
    def __init__(self, real):
        self._real = real

    def __getattr__(self, name):
        return getattr(self._real, name)

    def Thread(self, *a, **kw):
        if current_task() is None:
            return self._real.Thread(*a, **kw)
        return _SimThread(*a, **kw)


def install():
    if _installed:
        return
    _installed["sleep"] = time.sleep
    _installed["time"] = time.time
    _installed["monotonic"] = time.monotonic
    _installed["perf_counter"] = time.perf_counter
    _installed["os.open"] = os.open
    _installed["os.unlink"] = os.unlink
    time.sleep = _sleep
    time.time = _time
    time.monotonic = _monotonic
    time.perf_counter = _perf_counter
    _installed["os.getpid"] = os.getpid
    os.getpid = _getpid
    _installed["os.remove"] = os.remove
    _installed["os.rename"] = os.rename
    _installed["os.replace"] = os.replace
    _installed["os.stat"] = os.stat
    _installed["os.lstat"] = os.lstat
    os.stat = _make_stat("stat")
    os.lstat = _make_stat("lstat")
    os.open = _os_open
    os.unlink = _os_unlink
    os.remove = _os_remove
    os.rename = _make_rename("rename")
    os.replace = _make_rename("replace")

    from toasty import image as timage
    from toasty import pyramid as tpyramid

    try:
        import filelock._soft as _fsoft
        _real_host_name = _fsoft.host_name

        def host_name():
            t = current_task()
            if t is not None and getattr(t.sim, "multi_host", False):
                return "node-%s" % t.proc
            return _real_host_name()

        _fsoft.host_name = host_name
    except (ImportError, AttributeError):
        pass

    # threads started by toasty's parallel helpers (par_util.finish_queue joins the queue's feeder from a helper
    # thread): inside a simulated process they are simulated tasks of that process
    try:
        from toasty import par_util as tpar
        if hasattr(tpar, "threading"):
            tpar.threading = _ThreadingShim(tpar.threading)
    except ImportError:
        pass

    _installed["load_path"] = timage.ImageLoader.load_path
    _orig_load_path = timage.ImageLoader.load_path

    def load_path(self, path):
        # the storage layer beneath toasty's tile reader: a simulated file-server fault surfaces here, inside
        # PyramidIO.read_image and whatever error handling it has
        t = current_task()
        if t is not None:
            f = getattr(t.sim, "load_fault", None)
            if f is not None:
                f(path)
        return _orig_load_path(self, path)

    timage.ImageLoader.load_path = load_path
    _installed["Image.save"] = timage.Image.save
    timage.Image.save = _make_save(timage.Image.save)
    _installed["read_image"] = tpyramid.PyramidIO.read_image
    tpyramid.PyramidIO.read_image = _make_read_image(tpyramid.PyramidIO.read_image)
    _installed["write_image"] = tpyramid.PyramidIO.write_image
    tpyramid.PyramidIO.write_image = _make_write_image(tpyramid.PyramidIO.write_image)
