"""Model of CPython 3.12 multiprocessing.Queue / Event / Process on Linux (fork)
on top of the toastysim kernel.  Transcribed from Lib/multiprocessing/queues.py
(see DESIGN.md appendix A).  Only these OS-provided IPC objects are stubs; the
code that uses them (toasty) runs unmodified.
"""

import collections
import copy
import multiprocessing as _mp
import queue as _queue
import traceback
from multiprocessing.reduction import ForkingPickler

from . import kernel
from .kernel import current_task, current_sim, INF

Empty = _queue.Empty
Full = _queue.Full

_SENTINEL = object()
PIPE_BYTES = 65536      # Linux default pipe capacity


class _PState(object):
    __slots__ = ("closed", "buffer", "feeder", "joincancelled", "close_armed")

    def __init__(self):
        self.closed = False
        self.buffer = collections.deque()
        self.feeder = None
        self.joincancelled = False
        self.close_armed = False


class SimQueue(object):
    def __init__(self, maxsize=0, **_kw):
        sim = current_sim()
        if sim is None:
            raise kernel.HarnessError("SimQueue outside a simulation")
        self._sim = sim
        sim.nqueues += 1
        self.qid = sim.nqueues
        self._maxsize = maxsize if maxsize > 0 else INF
        self._free = self._maxsize
        self._pipe = collections.deque()
        self._pipe_bytes = 0
        self._pipe_cap = getattr(sim, "pipe_cap", PIPE_BYTES)
        self._rlock = None
        self._ps = {}
        self.n_put = 0
        self.n_got = 0

    def __deepcopy__(self, memo):
        return self          # shared across fork

    def __reduce__(self):
        raise RuntimeError("Queue objects should only be shared between processes through inheritance")

    def _st(self):
        proc = current_task().proc
        st = self._ps.get(proc)
        if st is None:
            st = self._ps[proc] = _PState()
        return st

    def _lbl(self, op):
        return "q%d.%s" % (self.qid, op)

    # -- producer side -----------------------------------------------------

    def put(self, obj, block=True, timeout=None):
        sim = self._sim
        st = self._st()
        if st.closed:
            raise ValueError("Queue %r is closed" % (self,))
        if block:
            if self._free <= 0:
                sim.probe("put_blocked_full")
            ok = sim.block_until(self._lbl("put"), lambda: self._free > 0, timeout)
        else:
            sim.yield_point(self._lbl("put_nowait"))
            ok = self._free > 0
        if not ok:
            raise Full
        self._free -= 1
        self.n_put += 1
        sim.progress()
        if st.feeder is None:
            st.buffer.clear()
            t = current_task()
            st.feeder = sim.spawn("feeder-q%d-%s" % (self.qid, t.proc), lambda: self._feed(st), proc=t.proc)
            st.close_armed = True
        st.buffer.append(obj)

    def put_nowait(self, obj):
        return self.put(obj, False)

    def _feed(self, st):
        sim = self._sim
        while True:
            sim.block_until(self._lbl("feed.wait"), lambda: len(st.buffer) > 0)
            while st.buffer:
                obj = st.buffer.popleft()
                if obj is _SENTINEL:
                    return
                try:
                    data = ForkingPickler.dumps(obj)
                    data = bytes(data)
                except Exception:
                    # Queue._on_queue_feeder_error: traceback, item dropped, slot released
                    sim.stderr.append(traceback.format_exc())
                    self._free += 1
                    sim.probe("feeder_pickle_error")
                    continue
                n = len(data) + 4
                if self._pipe_bytes and self._pipe_bytes + n > self._pipe_cap:
                    sim.probe("feeder_blocked_pipe_full")
                sim.block_until(
                    self._lbl("feed.send"),
                    lambda: self._pipe_bytes == 0 or self._pipe_bytes + n <= self._pipe_cap,
                )
                self._pipe.append(data)
                self._pipe_bytes += n
                sim.progress()
                if st.closed:
                    sim.probe("feeder_flush_after_close")

    # -- consumer side -----------------------------------------------------

    def _pop(self):
        data = self._pipe.popleft()
        self._pipe_bytes -= len(data) + 4
        self._free += 1
        self.n_got += 1
        self._sim.progress()
        return data

    def get(self, block=True, timeout=None):
        sim = self._sim
        st = self._st()
        me = current_task()
        if st.closed:
            raise ValueError("Queue %r is closed" % (self,))
        if block and timeout is None:
            sim.block_until(self._lbl("get.rlock"), lambda: self._rlock is None)
            self._rlock = me
            try:
                sim.block_until(self._lbl("get.recv"), lambda: len(self._pipe) > 0)
                data = self._pop()
            finally:
                if not me.killed:       # SIGTERM while holding the lock leaves it held
                    self._rlock = None
        else:
            if block:
                deadline = sim.now + timeout
                ok = sim.block_until(self._lbl("get.rlock"), lambda: self._rlock is None, timeout)
            else:
                sim.yield_point(self._lbl("get_nowait"))
                ok = self._rlock is None
            if not ok:
                sim.probe("get_empty_on_rlock")
                raise Empty
            self._rlock = me
            try:
                if block:
                    ok = sim.block_until(self._lbl("get.poll"), lambda: len(self._pipe) > 0,
                                         max(0.0, deadline - sim.now))
                else:
                    ok = len(self._pipe) > 0
                if not ok:
                    if self.n_put > self.n_got:
                        sim.probe("get_empty_while_item_in_feeder")
                    raise Empty
                data = self._pop()
            finally:
                if not me.killed:
                    self._rlock = None
        return ForkingPickler.loads(data)

    def get_nowait(self):
        return self.get(False)

    def qsize(self):
        if self._maxsize == INF:
            return self.n_put - self.n_got
        return self._maxsize - self._free

    def empty(self):
        return not self._pipe

    def full(self):
        return self._free <= 0

    # -- shutdown ----------------------------------------------------------

    def close(self):
        sim = self._sim
        # buggify: every reader's receive timeout expires just as the producer closes the queue
        if sim.faults_stopped_at is None and sim.draw(2, p0=0.5, kind="close_storm") == 1:
            pollers = [t for t in sim.tasks if t.state == "blocked" and t.deadline is not None
                       and (t.waiting_op or "").startswith("q%d.get" % self.qid)]
            if pollers:
                sim.request_storm(pollers)
        sim.yield_point(self._lbl("close"))
        st = self._st()
        st.closed = True
        if st.close_armed:
            st.close_armed = False
            if st.buffer:
                sim.probe("close_with_items_buffered")
            st.buffer.append(_SENTINEL)

    def join_thread(self):
        st = self._st()
        assert st.closed, "Queue %r not closed" % (self,)
        if st.feeder is not None and not st.joincancelled:
            f = st.feeder
            self._sim.block_until(self._lbl("join_thread"), lambda: f.done)

    def cancel_join_thread(self):
        self._st().joincancelled = True

    def _process_exit(self, proc):
        """What multiprocessing's _exit_function does for this queue in `proc`:
        finalize_close (sentinel) then join the feeder unless cancelled."""
        st = self._ps.get(proc)
        if st is None or st.feeder is None:
            return
        if st.close_armed:
            st.close_armed = False
            st.buffer.append(_SENTINEL)
        if not st.joincancelled:
            f = st.feeder
            self._sim.block_until(self._lbl("exit.join_feeder"), lambda: f.done)


class SimEvent(object):
    def __init__(self, **_kw):
        sim = current_sim()
        if sim is None:
            raise kernel.HarnessError("SimEvent outside a simulation")
        self._sim = sim
        sim.nevents += 1
        self.eid = sim.nevents
        self._flag = False

    def __deepcopy__(self, memo):
        return self

    def is_set(self):
        self._sim.yield_point("e%d.is_set" % self.eid)
        return self._flag

    def set(self):
        self._sim.yield_point("e%d.set" % self.eid)
        self._flag = True

    def clear(self):
        self._sim.yield_point("e%d.clear" % self.eid)
        self._flag = False

    def wait(self, timeout=None):
        self._sim.block_until("e%d.wait" % self.eid, lambda: self._flag, timeout)
        return self._flag


class SimProcess(object):
    def __init__(self, group=None, target=None, name=None, args=(), kwargs=None, daemon=None):
        sim = current_sim()
        if sim is None:
            raise kernel.HarnessError("SimProcess outside a simulation")
        self._sim = sim
        self._target = target
        self._args = tuple(args)
        self._kwargs = dict(kwargs or {})
        self.daemon = bool(daemon)
        self._task = None
        self._exitcode = None
        self._terminated = False
        self.name = name
        self.pid = None
        self._queues = None

    def __deepcopy__(self, memo):
        return self

    def start(self):
        sim = self._sim
        assert self._task is None, "cannot start a process twice"
        sim.nprocs += 1
        k = sim.nprocs
        pname = "w%d" % k
        if self.name is None:
            self.name = "Process-%d" % k
        self.pid = 10000 + k
        # fork: the child gets a private copy of everything reachable from the
        # arguments, except the IPC objects (and harness recorders), which
        # define __deepcopy__ -> self.
        target, args, kwargs = copy.deepcopy((self._target, self._args, self._kwargs))
        def body():
            target(*args, **kwargs)

        def on_exit(task):
            if task.killed:
                # SIGTERM: no finalizers run, feeder threads die with the process
                self._exitcode = -15
                sim.log(pname, "exitcode -15")
                return
            if task.exc is not None:
                sim.stderr.append("Process %s:\n%s" % (self.name, task.exc_tb))
                code = 1
            else:
                code = 0
            # _exit_function: flush and join this process's queue feeders
            for q in sim_all_queues(sim):
                q._process_exit(pname)
            self._exitcode = code
            sim.log(pname, "exitcode %d" % code)

        self._task = sim.spawn(pname, body, proc=pname)
        self._task.on_exit = on_exit
        sim.workers = getattr(sim, "workers", [])
        sim.workers.append(self)
        sim.yield_point("start %s" % pname)

    def run(self):
        if self._target:
            self._target(*self._args, **self._kwargs)

    def join(self, timeout=None):
        t = self._task
        assert t is not None, "can only join a started process"
        self._sim.block_until("join %s" % t.name, lambda: t.done, timeout)

    def is_alive(self):
        t = self._task
        if t is None:
            return False
        self._sim.yield_point("is_alive %s" % t.name)
        return not t.done

    @property
    def exitcode(self):
        t = self._task
        if t is None:
            return None
        self._sim.yield_point("exitcode %s" % t.name)
        if not t.done:
            return None
        return self._exitcode

    def terminate(self):
        """SIGTERM: the process dies at its next scheduling point; its queue
        feeder threads die with it (whatever they had buffered is lost)."""
        t = self._task
        assert t is not None
        sim = self._sim
        sim.yield_point("terminate %s" % t.name)
        if t.done:
            return
        t.killed = True
        for q in sim_all_queues(sim):
            st = q._ps.get(t.name)
            if st is not None and st.feeder is not None and not st.feeder.done:
                st.feeder.killed = True
            if q._rlock is t:
                # a reader killed while holding the queue's read lock leaves it locked forever
                sim.probe("killed_holding_rlock")

    kill = terminate

    @property
    def sentinel(self):
        raise kernel.HarnessError("SimProcess.sentinel is not modelled")


_ALLQ = "_all_queues"


def sim_all_queues(sim):
    return getattr(sim, _ALLQ, [])


# -- dispatchers installed on the multiprocessing module ----------------------

_orig = {}


def _register_queue(q):
    sim = q._sim
    lst = getattr(sim, _ALLQ, None)
    if lst is None:
        lst = []
        setattr(sim, _ALLQ, lst)
    lst.append(q)
    return q


def _Queue(maxsize=0):
    if current_task() is not None:
        return _register_queue(SimQueue(maxsize))
    return _orig["Queue"](maxsize)


def _Event():
    if current_task() is not None:
        return SimEvent()
    return _orig["Event"]()


class _ProcessMeta(type):
    def __call__(cls, *a, **kw):
        if current_task() is not None:
            return SimProcess(*a, **kw)
        return _orig["Process"](*a, **kw)


class _Process(metaclass=_ProcessMeta):
    pass


def install():
    if _orig:
        return
    _orig["Queue"] = _mp.Queue
    _orig["Event"] = _mp.Event
    _orig["Process"] = _mp.Process
    _mp.Queue = _Queue
    _mp.Event = _Event
    _mp.Process = _Process
