"""toastysim kernel: a deterministic, single-baton scheduler for real threads.

Every simulated process (caller, mp worker, queue feeder) is a real Python
thread running real toasty code, but only the thread holding the *baton* runs.
A thread gives the baton up only inside a simulator primitive (`yield_point`,
`block_until`, task exit); the scheduler then decides -- as a pure function of
the choice sequence -- who runs next.  No real sleep / timeout / OS scheduling
decision is observable by the code under test.

One list of small integers (the choice sequence) decides everything: workload,
knobs, faults, schedule.  See DESIGN.md section 3.
"""

import hashlib
import os
import threading
import traceback
import time as _real_time

import re as _re

_TILE_SUFFIX = _re.compile(r"(\d+_\d+|L\d+X\d+Y\d+)\.[A-Za-z0-9]+(\.[A-Za-z0-9]+)*$")
_DIGITS = _re.compile(r"\d+")
_real_sleep = _real_time.sleep
_real_monotonic = _real_time.monotonic

INF = float("inf")


WALL_TIMEOUTS = [0]     # runs of this process that hit the real-time limit of Sim.run


class SimAbort(BaseException):
    """Unwinds a parked simulated task at teardown or when a cap is hit."""


class TaskKilled(BaseException):
    """Unwinds a simulated process that was terminate()d (SIGTERM)."""


class HarnessError(Exception):
    """Something is wrong with the simulator or the harness, not with toasty."""


CHOICE_SINK = [None]    # file descriptor that receives every drawn value (set only while scanning for a crashing run)


class Choices(object):
    """The choice sequence.  ``draw(n)`` returns a value in ``range(n)``.

    Replay mode: values come from ``replay`` (modulo n); when the list is
    exhausted, from ``rng`` if there is one, else 0 (= simplest alternative).
    Everything drawn is recorded in ``rec`` so that a seeded run can be replayed
    and shrunk without the PRNG.
    """

    __slots__ = ("replay", "rng", "rec", "kinds", "keep_kinds")

    def __init__(self, replay=None, rng=None, keep_kinds=False):
        self.replay = list(replay) if replay is not None else []
        self.rng = rng
        self.rec = []
        self.kinds = [] if keep_kinds else None
        self.keep_kinds = keep_kinds

    def draw(self, n, p0=None, kind=""):
        if n <= 1:
            return 0
        i = len(self.rec)
        if i < len(self.replay):
            v = self.replay[i] % n
        elif self.rng is not None:
            if p0 is not None:
                v = 0 if self.rng.random() < p0 else 1 + self.rng.randrange(n - 1)
            else:
                v = self.rng.randrange(n)
        else:
            v = 0
        self.rec.append(v)
        if CHOICE_SINK[0] is not None:
            os.write(CHOICE_SINK[0], b"%d\n" % v)      # crash diagnosis: the choices survive the death of the process
        if self.kinds is not None:
            self.kinds.append(kind)
        return v

    def used(self):
        return len(self.rec)


_tls = threading.local()


def current_task():
    return getattr(_tls, "task", None)


def current_sim():
    t = getattr(_tls, "task", None)
    if t is not None:
        return t.sim
    return getattr(_tls, "sim", None)


class Task(object):
    __slots__ = (
        "sim", "name", "proc", "sem", "state", "pred", "deadline", "timed_out",
        "thread", "exc", "exc_tb", "result", "prio", "fn", "is_main", "waiting_op",
        "on_exit", "killed",
    )

    def __init__(self, sim, name, proc, fn, is_main=False):
        self.sim = sim
        self.name = name
        self.proc = proc
        self.fn = fn
        self.sem = threading.Semaphore(0)
        self.state = "runnable"
        self.pred = None
        self.deadline = None
        self.timed_out = False
        self.thread = None
        self.exc = None
        self.exc_tb = None
        self.result = None
        self.prio = 0
        self.is_main = is_main
        self.waiting_op = None
        self.on_exit = None
        self.killed = False

    @property
    def done(self):
        return self.state == "done"

    def __deepcopy__(self, memo):
        return self

    def __repr__(self):
        return "<Task %s %s>" % (self.name, self.state)


class Sim(object):
    """One simulated execution."""

    TRACE_KEEP = 4000

    def __init__(self, choices, step_cap=20000, vtime_cap=INF, strategy=None,
                 p_stay=None, p_early=None, keep_trace=True, no_progress_cap=12000):
        self.choices = choices
        self.step_cap = step_cap
        self.vtime_cap = vtime_cap
        self.no_progress_cap = no_progress_cap
        self.last_progress = 0
        self.tasks = []
        self.current = None
        self.now = 0.0
        self.step = 0
        self._h = hashlib.sha1()
        self.trace = []
        self.keep_trace = keep_trace
        self.frozen = False
        self.status = None
        self.finished = threading.Event()
        self.aborting = False
        self.probes = {}
        self.faults = {}
        self.max_enabled = 0
        self.concurrent_steps = 0
        self.events = []          # property-level history (recorder events)
        self.stderr = []          # captured worker tracebacks
        self.nqueues = 0
        self.nprocs = 0
        self.nevents = 0
        self.leaked = 0
        self.faults_stopped_at = None
        self.at_finish = []
        self.fair_after_stop = True
        self._starve = {}
        self.rootdir = None       # for relative path labels
        import os as _os
        self._realpid = str(_os.getpid())
        # scheduling knobs (drawn here so that they are part of the choice list)
        d = choices.draw
        if strategy is None:
            strategy = ("rw", "pct")[d(2, p0=0.7, kind="strategy")]
        self.strategy = strategy
        if p_stay is None:
            p_stay = (0.5, 0.0, 0.8, 0.95)[d(4, kind="p_stay")]
        self.p_stay = p_stay
        if p_early is None:
            p_early = (0.0, 0.05, 0.15, 0.3)[d(4, kind="p_early")]
        self.p_early = p_early
        self._storm = []
        self._penalized = {}
        self.early_budget = 400
        # buggify: a runnable task may be descheduled for a long (virtual) while at a scheduling point
        self.p_stall = (0.0, 0.0, 0.01, 0.04)[d(4, kind="p_stall")]
        self.stall_budget = 4
        # clock fault: the wall clock (time.time, file timestamps) jumps once - a suspend/resume, an NTP step, a VM
        # migration - while the monotonic clock and all timeouts are unaffected
        self.wall_offset = 0.0
        self.p_clock_jump = (0.0, 0.0, 0.0, 0.02)[d(4, kind="p_clock_jump")]
        self.jump_budget = 1
        # simulated processes may run on different hosts / in different pid namespaces that share the file system:
        # 0 = all pids distinct, m > 0 = the pid of process k is k mod m (collisions)
        self.pid_mod = (0, 0, 0, 1, 2)[d(5, kind="pid_namespaces")]
        # one run in three: every simulated process runs on a host of its own (a cluster sharing the file system): the
        # lock-file library records a per-process pid and host name, and no process can probe another one's pid
        self.multi_host = d(3, kind="hosts") == 2
        self._pct_changes = ()
        if self.strategy == "pct":
            k = d(4, kind="pct_k")
            self._pct_changes = frozenset(1 + d(400, kind="pct_cp") for _ in range(k))
        self._low_prio = 0

    # -- helpers -----------------------------------------------------------

    def draw(self, n, p0=None, kind=""):
        return self.choices.draw(n, p0=p0, kind=kind)

    def probe(self, name, n=1):
        self.probes[name] = self.probes.get(name, 0) + n

    def fault(self, name, n=1):
        self.faults[name] = self.faults.get(name, 0) + n

    def log(self, task, op):
        if self.frozen:
            return
        line = "%d %s %s" % (self.step, task, op)
        self._h.update(line.encode())
        self._h.update(b"\n")
        if self.keep_trace and len(self.trace) < self.TRACE_KEEP:
            self.trace.append(line)

    def progress(self):
        """Something other than polling happened (an item moved, a callback
        ran, a task exited); a long stretch of steps without this is a livelock."""
        self.last_progress = self.step

    def event(self, *ev):
        """Record a property-level history event stamped with the global step."""
        if self.frozen:
            return
        t = current_task()
        rec = (self.step, t.name if t is not None else "-") + ev
        self.last_progress = self.step
        self.events.append(rec)
        self.log(rec[1], "ev " + " ".join(str(x) for x in ev))

    def digest(self):
        return self._h.hexdigest()

    def rel(self, path):
        path = str(path)
        if self.rootdir and path.startswith(self.rootdir):
            path = path[len(self.rootdir):].lstrip("/")
        else:
            path = path.rsplit("/", 1)[-1]
        if self._realpid in path:       # a real pid must never enter the trace
            path = path.replace(self._realpid, "PID")
        # temporary / scratch names built around a tile name (".tmp-<pid>-<seq>-1_0.fits", "1_0.fits.part") carry
        # counters and ids that may differ between two executions of the same schedule: keep the tile name, mask the rest
        head, _, base = path.rpartition("/")
        if ".break." in base:           # filelock's stale-lock breaking renames to <lock>.break.<pid>.<random token>
            base = base.split(".break.")[0] + ".break.#"
            path = (head + "/" + base) if head else base
        m = _TILE_SUFFIX.search(base)
        if m is not None and m.start() > 0:
            base = _DIGITS.sub("#", base[:m.start()]) + base[m.start():]
            path = (head + "/" + base) if head else base
        return path

    def request_storm(self, tasks, window=12):
        """Buggify: fire the pending timeouts of `tasks` back to back (each runs
        to its next primitive), then keep them off the CPU for `window` steps -
        the 'everybody timed out just as the state changed' schedule."""
        self._storm = [(t, window) for t in tasks]

    def stop_faults(self):
        """Declare that no further faults / early timeouts will be injected."""
        if self.faults_stopped_at is None:
            self.faults_stopped_at = (self.step, self.now)
            self.p_early = 0.0
            self.p_stall = 0.0
            self.p_clock_jump = 0.0

    # -- task management ---------------------------------------------------

    def spawn(self, name, fn, proc=None, is_main=False):
        t = Task(self, name, proc or name, fn, is_main=is_main)
        if self.strategy == "pct":
            t.prio = 1000 + self.draw(1 << 12, kind="prio")
        th = threading.Thread(target=self._body, args=(t,), name="sim-" + name, daemon=True)
        t.thread = th
        self.tasks.append(t)
        th.start()
        return t

    def _body(self, t):
        _tls.task = t
        t.sem.acquire()
        if self.aborting:
            t.state = "done"
            return
        try:
            if t.killed:
                raise TaskKilled()
            t.result = t.fn()
        except SimAbort:
            pass
        except TaskKilled:
            t.exc = None
        except BaseException as e:  # noqa - recorded, decided by the oracle
            t.exc = e
            t.exc_tb = traceback.format_exc()
        try:
            if t.on_exit is not None and not self.aborting:
                t.on_exit(t)
        except (SimAbort, TaskKilled):
            pass
        except BaseException as e:  # noqa
            if t.exc is None:
                t.exc = e
                t.exc_tb = traceback.format_exc()
        t.state = "done"
        if self.aborting:
            return
        self.log(t.name, "exit")
        self.last_progress = self.step
        if t.is_main:
            self._finish("returned")
            return
        try:
            self._schedule_next(t)
        except SimAbort:
            pass

    def _finish(self, status):
        if self.status is None:
            self.status = status
            self.at_finish = [(t.name, t.state, t.waiting_op if t.state == "blocked" else None) for t in self.tasks]
        self.frozen = True
        self.finished.set()

    def _check(self):
        if self.aborting:
            raise SimAbort()

    # -- primitives --------------------------------------------------------

    def yield_point(self, op):
        t = current_task()
        if t is None or t.sim is not self:
            return
        self._check()
        self.log(t.name, op)
        if op == "cb" or op.startswith(("write", "read ")):
            # tile I/O is work, not polling (a serial cascade over a sparse deep pyramid reads thousands of absent
            # children in a row); polling consists of timed receives, sleeps and lock-file creation attempts
            self.last_progress = self.step
        if self.p_stall > 0.0 and self.stall_budget > 0 and self.faults_stopped_at is None:
            if self.draw(2, p0=1.0 - self.p_stall, kind="stall") == 1:
                self.stall_budget -= 1
                dur = (0.3, 1.5, 12.0)[self.draw(3, kind="stall_len")]
                self.fault("task_stall")
                self.log(t.name, "stalled %.1fs" % dur)
                t.state = "blocked"
                t.pred = None
                t.deadline = self.now + dur
                t.timed_out = False
                t.waiting_op = "stalled"
                self._schedule_next(t)
                return
        if self.p_clock_jump > 0.0 and self.jump_budget > 0 and self.faults_stopped_at is None:
            if self.draw(2, p0=1.0 - self.p_clock_jump, kind="clock_jump") == 1:
                self.jump_budget -= 1
                jump = (7 * 3600.0 + 5.0, 2 * 86400.0, -3600.0)[self.draw(3, kind="clock_jump_by")]
                self.wall_offset += jump
                self.fault("wall_clock_jump")
                self.log(t.name, "wall clock jumps by %.0fs" % jump)
        self._schedule_next(t)

    def block_until(self, op, pred, timeout=None):
        """Give up the baton until ``pred()`` holds (returns True) or the
        timeout (virtual seconds) expires (returns False).  ``pred`` None means
        a pure sleep."""
        t = current_task()
        if t is None or t.sim is not self:
            raise HarnessError("block_until outside a simulated task: %s" % op)
        self._check()
        self.log(t.name, op)
        t.state = "blocked"
        t.pred = pred
        t.deadline = (self.now + max(0.0, timeout)) if timeout is not None else None
        t.timed_out = False
        t.waiting_op = op
        self._schedule_next(t)
        return not t.timed_out

    def sleep(self, secs):
        self.block_until("sleep %.3g" % secs, None, secs)

    # -- the scheduler -----------------------------------------------------

    def _schedule_next(self, me):
        self.step += 1
        if self.step > self.step_cap:
            self._finish("step_cap")
            if me.state != "done":
                me.sem.acquire()
                raise SimAbort()
            return
        # every poller costs steps: with 16 polling workers under a strict-priority schedule the dispatcher gets one step
        # in fifty, so the budget of "steps without progress" grows with the number of live tasks
        live = sum(1 for t in self.tasks if t.state != "done")
        frac = (self.step - self.last_progress) / float(self.no_progress_cap * max(1, live // 4))
        if frac > getattr(self, "idle_frac", 0.0):
            self.idle_frac = frac
        if self.step - self.last_progress > self.no_progress_cap * max(1, live // 4):
            self._finish("no_progress")
            if me.state != "done":
                me.sem.acquire()
                raise SimAbort()
            return
        if self.now > self.vtime_cap:
            self._finish("vtime_cap")
            if me.state != "done":
                me.sem.acquire()
                raise SimAbort()
            return

        enabled = []
        timed = []
        now = self.now
        for t in self.tasks:
            st = t.state
            if st == "runnable":
                enabled.append(t)
            elif st == "blocked":
                if t.killed or (t.pred is not None and t.pred()):
                    enabled.append(t)
                elif t.deadline is not None:
                    if t.deadline <= now:
                        enabled.append(t)
                    else:
                        timed.append(t)
        ne = len(enabled)
        if ne > self.max_enabled:
            self.max_enabled = ne
        if ne >= 2:
            self.concurrent_steps += 1

        chosen = None
        fire = False
        while self._storm and chosen is None:
            t, window = self._storm.pop(0)
            if t.state == "blocked" and t.deadline is not None and not (t.pred is not None and t.pred()):
                self.now = max(self.now, t.deadline)
                self.fault("early_timeout")
                self.fault("timeout_storm")
                self._penalized[t.name] = self.step + window
                chosen = t
        if chosen is not None:
            pass
        elif timed and ne and self.p_early > 0.0 and self.early_budget > 0:
            fire = self.draw(2, p0=1.0 - self.p_early, kind="early") == 1
        if chosen is not None:
            pass
        elif not ne:
            if not timed:
                self._finish("deadlock")
                if me.state != "done":
                    me.sem.acquire()
                    raise SimAbort()
                return
            # nothing can run: virtual time jumps to the earliest deadline
            chosen = min(timed, key=lambda t: t.deadline)
            self.now = max(self.now, chosen.deadline)
        elif fire:
            chosen = timed[self.draw(len(timed), kind="early_which")]
            self.now = max(self.now, chosen.deadline)
            self.early_budget -= 1
            self.fault("early_timeout")
        else:
            chosen = self._pick(enabled, me)

        if chosen.state == "blocked":
            chosen.timed_out = not (chosen.pred is not None and chosen.pred())
            chosen.state = "runnable"
            chosen.pred = None
            chosen.deadline = None
        self.current = chosen
        if chosen is me:
            if me.killed and me.state != "done":
                raise TaskKilled()
            return
        chosen.sem.release()
        if me.state != "done":
            me.sem.acquire()
            if self.aborting:
                raise SimAbort()
            if me.killed:
                raise TaskKilled()

    def _pick(self, enabled, me):
        if self._penalized:
            pen = self._penalized
            for k in [k for k, v in pen.items() if v < self.step]:
                del pen[k]
            if pen:
                rest = [t for t in enabled if t.name not in pen]
                if rest:
                    enabled = rest
        n = len(enabled)
        if n == 1:
            return enabled[0]
        # bounded fairness once faults have stopped
        if self.faults_stopped_at is not None and self.fair_after_stop:
            st = self._starve
            names = set()
            worst = None
            for t in enabled:
                names.add(t.name)
                c = st.get(t.name, 0) + 1
                st[t.name] = c
                if c > 50 and (worst is None or c > st[worst.name]):
                    worst = t
            for k in list(st):
                if k not in names:
                    del st[k]
            if worst is not None:
                st[worst.name] = 0
                return worst
        if self.strategy == "pct":
            if self.step in self._pct_changes and me in enabled:
                self._low_prio -= 1
                me.prio = self._low_prio
            best = enabled[0]
            for t in enabled[1:]:
                if t.prio > best.prio:
                    best = t
            c = best
        else:
            if me in enabled:
                order = [me] + [t for t in enabled if t is not me]
                c = order[self.draw(n, p0=self.p_stay, kind="sched")]
            else:
                c = enabled[self.draw(n, kind="sched")]
        if self.faults_stopped_at is not None:
            self._starve[c.name] = 0
        return c

    # -- driving -----------------------------------------------------------

    def run(self, main_fn, wall_timeout=None):
        """Run ``main_fn`` as task 'main' under the scheduler.  Returns the main
        task.  ``self.status`` is one of returned / deadlock / step_cap /
        vtime_cap / wall_timeout."""
        if current_task() is not None:
            raise HarnessError("nested Sim.run")
        _tls.sim = self
        try:
            main = self.spawn("main", main_fn, proc="main", is_main=True)
            self.current = main
            main.sem.release()
            if wall_timeout is None:
                wall_timeout = float(os.environ.get("TOASTYSIM_WALL_TIMEOUT", "300"))
            if not self.finished.wait(wall_timeout):
                # a limit in *real* seconds: says something about the load of the machine, nothing about toasty.
                # The engine re-executes such a run alone and only then judges it.
                self.status = "wall_timeout"
                self.frozen = True
                WALL_TIMEOUTS[0] += 1
            self._teardown(60.0 if self.status == "wall_timeout" else 5.0)
        finally:
            _tls.sim = None
        return main

    def _teardown(self, join_s=5.0):
        self.aborting = True
        for t in self.tasks:
            if t.thread is None:
                continue
            if t.state != "done" or t.thread.is_alive():
                t.sem.release()
                t.thread.join(join_s)
                if t.thread.is_alive():
                    self.leaked += 1
