#!/usr/bin/env python3
"""Run every quick check against a behaviour-preserving change (a tree that should still satisfy all properties).
usage: tools/neutral.py <name> <changed-tree> [checks...]; any non-zero exit is a false alarm or a bug in the change."""
import json, os, shutil, subprocess, sys, time
VERIF = os.path.dirname(os.path.dirname(os.path.abspath(__file__)))
name, tree = sys.argv[1:3]
checks = sys.argv[3:] or ["C01", "C02", "C03", "C06", "C09", "C10", "C14", "C15", "C17", "C18", "C19"]
res = {}
for c in checks:
    out = "/dev/shm/neutral-out-%s" % name
    t0 = time.time()
    seeds = [0, 1]
    for sd in seeds:
        p = subprocess.run(["./check", c], cwd=VERIF, env=dict(os.environ, TOASTY_SRC=tree, VERIF_OUT=out, VERIF_SEED=str(sd)),
                           capture_output=True, text=True, timeout=2400)
        lines = [l[:300] for l in (p.stdout + p.stderr).splitlines() if l.startswith(("violation", "VIOLATION", "OK", "HARNESS", "  detail"))]
        res["%s@%d" % (c, sd)] = {"rc": p.returncode, "lines": lines[:5]}
        print("%s %s seed=%d rc=%d %s" % (name, c, sd, p.returncode, lines[:2] if p.returncode else ""))
        sys.stdout.flush()
    shutil.rmtree(out, ignore_errors=True)
os.makedirs(os.path.join(VERIF, "seeded", "neutral-" + name), exist_ok=True)
json.dump({"name": name, "kind": "behaviour-preserving change (must not be flagged)", "results": res,
           "alarms": sorted(k for k, v in res.items() if v["rc"] != 0)}, open(os.path.join(VERIF, "seeded", "neutral-" + name, "meta.json"), "w"), indent=1)
