#!/bin/sh
# Multi-seed soak of the quick checks (not a registered check): tools/soak.sh "C01 C03" 1 20
# Writes evidence/replays under $VERIF_OUT (default /dev/shm/toastysim-soak) so the committed evidence is untouched.
PROPS="${1:-C01 C02 C03 C09 C10 C14 C18 C19}"
FROM="${2:-1}"
TO="${3:-10}"
TIER="${4:-quick}"
export VERIF_OUT="${VERIF_OUT:-/dev/shm/toastysim-soak}"
mkdir -p "$VERIF_OUT"
cd "$(dirname "$0")/.."
bad=0
for s in $(seq "$FROM" "$TO"); do
  for p in $PROPS; do
    out=$(VERIF_SEED=$s ./check "$p" --tier "$TIER" 2>&1)
    rc=$?
    line=$(printf '%s\n' "$out" | grep -E '^(OK|violation|HARNESS|KNOWN)' | head -3 | tr '\n' '|')
    echo "seed=$s $p rc=$rc $line"
    if [ $rc -ne 0 ]; then bad=$((bad+1)); printf '%s\n' "$out" | tail -15; cp "$VERIF_OUT"/replays/$p-$s-*.json "$VERIF_OUT"/ 2>/dev/null; fi
  done
done
echo "soak finished: $bad failing (check, seed) pairs"
