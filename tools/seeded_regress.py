#!/usr/bin/env python3
"""Regression over every stored breaking change (not a registered check): apply seeded/<name>/patch.diff to a scratch
copy of /repo (under /dev/shm, removed afterwards), run the quick tier of the checks that are recorded as catching it
(meta.json: caught_by) against that copy and record the outcome in reports/seeded_regression.json.
usage: tools/seeded_regress.py [name-substring ...]"""
import json, os, shutil, subprocess, sys, time

VERIF = os.path.dirname(os.path.dirname(os.path.abspath(__file__)))
REPO = os.environ.get("TOASTY_REPO", "/repo")


def main():
    subs = sys.argv[1:]
    out = {}
    names = sorted(n for n in os.listdir(os.path.join(VERIF, "seeded")) if not n.startswith(("neutral-", "_")))
    for name in names:
        if subs and not any(s in name for s in subs):
            continue
        d = os.path.join(VERIF, "seeded", name)
        meta = json.load(open(os.path.join(d, "meta.json")))
        tree = "/dev/shm/seeded-regress-%d" % os.getpid()
        shutil.rmtree(tree, ignore_errors=True)
        shutil.copytree(REPO, tree, ignore=shutil.ignore_patterns(".git", "__pycache__", ".pytest_cache"))
        p = subprocess.run("patch -p1 -s --no-backup-if-mismatch < %s" % os.path.join(d, "patch.diff"), cwd=tree, shell=True, capture_output=True, text=True)
        entry = {"applies_to_repo_head": p.returncode == 0, "checks": {}}
        if p.returncode == 0:
            for c in (meta.get("caught_by") or [meta["breaks_property"]]):
                t0 = time.time()
                scratch = "/dev/shm/seeded-regress-out-%d" % os.getpid()
                r = subprocess.run(["./check", c], cwd=VERIF, env=dict(os.environ, TOASTY_SRC=tree, VERIF_OUT=scratch), capture_output=True, text=True)
                lines = [l[:200] for l in (r.stdout + r.stderr).splitlines() if l.startswith(("violation", "OK", "HARNESS"))][:2]
                entry["checks"][c] = {"rc": r.returncode, "s": round(time.time() - t0), "lines": lines}
                shutil.rmtree(scratch, ignore_errors=True)
        entry["flagged"] = any(v["rc"] == 1 for v in entry["checks"].values())
        out[name] = entry
        print("%-58s applies=%s flagged=%s %s" % (name, entry["applies_to_repo_head"], entry["flagged"], {c: v["rc"] for c, v in entry["checks"].items()}))
        sys.stdout.flush()
        shutil.rmtree(tree, ignore_errors=True)
    head = subprocess.run(["git", "-C", REPO, "rev-parse", "--short", "HEAD"], capture_output=True, text=True).stdout.strip()
    os.makedirs(os.path.join(VERIF, "reports"), exist_ok=True)
    path = os.path.join(VERIF, "reports", "seeded_regression.json")
    old = {}
    if subs and os.path.exists(path):
        old = json.load(open(path)).get("changes", {})
    old.update(out)
    json.dump({"repo_head": head, "at": time.strftime("%Y-%m-%dT%H:%M:%S"), "changes": old,
               "not_flagged": sorted(n for n, e in old.items() if not e["flagged"])}, open(path, "w"), indent=1)
    print("not flagged:", sorted(n for n, e in out.items() if not e["flagged"]))


if __name__ == "__main__":
    main()
