#!/usr/bin/env python3
"""Standalone determinism proof (run after every new seam / fault kind; not a
registered check): for every claimed property, compute the trace digests of N
seeded runs three times in fresh interpreters - PYTHONHASHSEED 0, 12345 and 999,
the last two with a different number of concurrent processes - and diff them.
Writes reports/determinism.json.

usage: tools/determinism.py [--n 400] [--seed 3] [C01 C03 ...]
"""
import concurrent.futures as cf
import json
import os
import subprocess
import sys
import time

VERIF = os.path.dirname(os.path.dirname(os.path.abspath(__file__)))
SLOW = {"C02": 0.15, "C14": 0.15, "C09": 0.1, "C06": 0.06, "C17": 0.05, "C10": 0.5}


def digests(prop, seed, idx, hashseed):
    env = dict(os.environ, PYTHONHASHSEED=str(hashseed), VERIF_SEED=str(seed), VERIF_OUT="/dev/shm/toastysim-det")
    p = subprocess.run(["./check", prop, "--digests", ",".join(map(str, idx))], env=env, cwd=VERIF,
                       capture_output=True, text=True, timeout=3600)
    out = {}
    for line in p.stdout.splitlines():
        if line.startswith("DIGEST "):
            _, i, d = line.split()
            out[int(i)] = d
    if p.returncode != 0 or len(out) != len(idx):
        raise RuntimeError("%s digests failed rc=%s\n%s" % (prop, p.returncode, p.stderr[-1500:]))
    return out


def sweep(prop, seed, n, hashseed, procs):
    chunks = [list(range(i, n, procs)) for i in range(procs)]
    chunks = [c for c in chunks if c]
    out = {}
    with cf.ThreadPoolExecutor(max_workers=procs) as ex:
        for r in ex.map(lambda c: digests(prop, seed, c, hashseed), chunks):
            out.update(r)
    return out


def main():
    args = sys.argv[1:]
    n = 400
    seed = 3
    props = []
    i = 0
    while i < len(args):
        if args[i] == "--n":
            n = int(args[i + 1]); i += 2
        elif args[i] == "--seed":
            seed = int(args[i + 1]); i += 2
        else:
            props.append(args[i].upper()); i += 1
    if not props:
        props = sorted(f[:-3].upper() for f in os.listdir(os.path.join(VERIF, "toastysim", "props")) if f[0] == "c" and f[1:3].isdigit())
    report = {"seed": seed, "props": {}, "at": time.strftime("%Y-%m-%dT%H:%M:%S")}
    bad = 0
    for prop in props:
        m = max(24, int(n * SLOW.get(prop, 1.0)))
        t0 = time.time()
        a = sweep(prop, seed, m, 0, 4)
        b = sweep(prop, seed, m, 12345, 16)
        c = sweep(prop, seed, m, 999, 9)
        diff = [i for i in range(m) if not (a[i] == b[i] == c[i])]
        report["props"][prop] = {"runs": m, "executions": 3 * m, "hashseeds": [0, 12345, 999], "process_counts": [4, 16, 9],
                                 "mismatches": diff[:20], "distinct_digests": len(set(a.values())), "wall_s": round(time.time() - t0, 1)}
        bad += len(diff)
        print("%s: %d runs x 3 interpreters/hashseeds/process counts, %d distinct digests, %d mismatches (%.0fs)" % (
            prop, m, len(set(a.values())), len(diff), time.time() - t0))
        sys.stdout.flush()
    report["mismatches_total"] = bad
    with open(os.path.join(VERIF, "reports", "determinism.json"), "w") as f:
        json.dump(report, f, indent=1)
    print("total mismatches:", bad)
    return 1 if bad else 0


sys.exit(main())
