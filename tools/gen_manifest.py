#!/usr/bin/env python3
"""Regenerate /verif/MANIFEST.json from the property modules that exist."""
import json, os, re, sys
VERIF = os.path.dirname(os.path.dirname(os.path.abspath(__file__)))

NA = {
 "C04": "pure geometry of (n, x, y, coordsys): no schedule, clock, I/O, fault or history for a simulator to vary; input-space techniques are the right tool",
 "C05": "pure function of the tile corners (pixel grid = centres of tiles eight levels deeper); nothing to schedule or fault",
 "C07": "pure predicate on (box | footprint | chunk, tile); the 'consequently' clauses are serial and deterministic",
 "C08": "integer arithmetic plus a serial, fault-free write loop; nothing for a scheduler or fault injector to vary",
 "C11": "plate-carree samplers are pure array functions",
 "C12": "point lookup is a pure function",
 "C13": "pure, serial enumeration and counting (its 'counts equal visits' clause is exercised on every C01/C03 run but not claimed from them)",
 "C16": "parity flip is a pure function of (array, WCS)",
 "C20": "HDU / WCS-key selection is a deterministic function of the files and options; no concurrency, timing or fault the property speaks about",
}
PLANNED = {}

LEVEL_TEXT = {}

def main():
    claimed = {}
    pdir = os.path.join(VERIF, "toastysim", "props")
    for fn in sorted(os.listdir(pdir)):
        m = re.match(r"(c\d\d)\.py$", fn)
        if not m:
            continue
        src = open(os.path.join(pdir, fn)).read()
        meta = {}
        mm = re.search(r'^MANIFEST\s*=\s*(\{.*?^\})', src, re.S | re.M)
        if mm:
            meta = eval(mm.group(1))
        lvl = re.search(r'^LEVEL\s*=\s*"(\w+)"', src, re.M).group(1)
        claimed[m.group(1).upper()] = (lvl, meta)
    props = [json.loads(l) for l in open(os.path.join(VERIF, "properties.jsonl"))]
    checks = []
    na = []
    for p in props:
        pid = p["id"]
        if pid in claimed:
            lvl, meta = claimed[pid]
            checks.append({
                "property_id": pid,
                "quick_cmd": "./check %s --tier quick" % pid,
                "thorough_cmd": "./check %s --tier thorough" % pid,
                "evidence_file": "evidence/%s.json" % pid,
                "replay_cmd_template": "./check %s --replay {path}" % pid,
                "engine": meta.get("engine", "toastysim"),
                "level_claimed": {"category": lvl, "text": meta.get("text", ""), "design_ref": meta.get("design_ref", "")},
                "level_note": meta.get("note", ""),
                "technique": meta.get("technique", "deterministic simulation with fault injection (seeded schedule/fault search)"),
            })
        elif pid in NA:
            na.append({"property_id": pid, "reason": NA[pid]})
        else:
            na.append({"property_id": pid, "reason": "check not built yet in this revision (planned: DESIGN.md section 5); not claimed until it exists"})
    man = {
        "version": 1,
        "setup_cmd": "sh tools/setup.sh",
        "hooks": {
            "guard": "TOASTY_VERIF_SIM",
            "enable": "no source hooks: the checks monkey-patch multiprocessing/time/os/PyramidIO seams from /verif at run time (the check wrapper exports TOASTY_VERIF_SIM=1 for information only); toasty is imported from /repo's working tree on every invocation",
            "baseline_off_cmd": "cd /repo && /venv/bin/python -m pytest -ra -q -p no:cacheprovider --timeout=900 --continue-on-collection-errors",
            "source_commits": [],
            "add_only": True,
        },
        "engines": [
            {"name": "toastysim", "path": "toastysim/", "serves_properties": sorted(claimed),
             "kind_free_text": "deterministic single-baton scheduler over real threads running real toasty code; multiprocessing Queue/Event/Process, clock, lock-file and tile-file operations behind simulator-owned seams; one choice sequence decides workload, faults and schedule; seeded search, shrinking, exact replay"},
        ],
        "checks": checks,
        "not_applicable": na,
        "notes": "See DESIGN.md. exit 0 = held; exit 1 + VIOLATION line = violation with replay file; exit 2 = harness error (never with a VIOLATION line). known_findings.txt lists recorded findings and fixed defects.",
    }
    with open(os.path.join(VERIF, "MANIFEST.json"), "w") as f:
        json.dump(man, f, indent=1)
    print("claimed:", sorted(claimed), "not_applicable:", [x["property_id"] for x in na])

main()
