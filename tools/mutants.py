#!/usr/bin/env python3
"""Sensitivity kit (not a registered check): apply small source mutations to a
scratch copy of /repo/toasty (under /dev/shm, removed afterwards) and run the
quick checks against it with TOASTY_SRC.  Each mutant lists the properties that
must flag it and those that must stay silent.

usage: tools/mutants.py [name-substring ...] [--props C01,C03] [--runs N]
"""
import json, os, shutil, subprocess, sys, time

VERIF = os.path.dirname(os.path.dirname(os.path.abspath(__file__)))
REPO = os.environ.get("TOASTY_REPO", "/repo")

# (name, file, old, new, must_flag, must_stay_silent)
MUTANTS = [
 ("release-on-3", "toasty/pyramid.py", "if flags == 0xF:", "if flags == 0x7 or flags == 0xF:", ["C01", "C02"], ["C03", "C10", "C18"]),
 ("bitnum-swapped", "toasty/pyramid.py", "bit_num = 2 * y_index + x_index", "bit_num = 2 * x_index + y_index", ["C01"], ["C03"]),
 ("stop-on-level0", "toasty/pyramid.py", "if pos == self._apex:\n                    break", "if pos.n == 0:\n                    break", ["C01"], []),
 ("seed-depth-2", "toasty/pyramid.py", "if pos.n == self.depth - 1 and is_live:", "if pos.n == self.depth - 2 and is_live:", ["C01"], []),
 ("done-before-callback", "toasty/pyramid.py", "        callback(pos)\n        done_queue.put(pos)", "        done_queue.put(pos)\n        callback(pos)", ["C01", "C02"], []),
 ("visit-set-before-join-thread", "toasty/pyramid.py", "        ready_queue.close()\n        ready_queue.join_thread()\n        done_event.set()\n\n        for w in workers:\n            w.join()\n\n        check_workers(workers)\n\n\nclass PyramidReductionIterator", "        ready_queue.close()\n        done_event.set()\n        ready_queue.join_thread()\n\n        for w in workers:\n            w.join()\n\n        check_workers(workers)\n\n\nclass PyramidReductionIterator", ["C03"], ["C01"]),
 ("visit-no-join-thread", "toasty/pyramid.py", "        ready_queue.close()\n        ready_queue.join_thread()\n        done_event.set()\n\n        for w in workers:\n            w.join()\n\n        check_workers(workers)\n\n\nclass PyramidReductionIterator", "        ready_queue.close()\n        done_event.set()\n\n        for w in workers:\n            w.join()\n\n        check_workers(workers)\n\n\nclass PyramidReductionIterator", ["C03"], []),
 ("visit-worker-exit-on-empty", "toasty/pyramid.py", "            args = ready_queue.get(True, timeout=1)\n        except Empty:\n            if finishing:\n                break\n            continue", "            args = ready_queue.get(True, timeout=1)\n        except Empty:\n            break", ["C03"], []),
 ("walk-worker-exit-on-empty", "toasty/pyramid.py", "            pos = ready_queue.get(True, timeout=1)\n        except Empty:\n            if done_event.is_set():\n                break\n            continue", "            pos = ready_queue.get(True, timeout=1)\n        except Empty:\n            break", ["C01"], []),
 ("transform-set-before-join", "toasty/transform.py", "    queue.close()\n    queue.join_thread()\n    done_event.set()", "    queue.close()\n    done_event.set()\n    queue.join_thread()", ["C03"], []),
 ("visit-no-worker-join", "toasty/pyramid.py", "        done_event.set()\n\n        for w in workers:\n            w.join()\n\n        check_workers(workers)\n\n\nclass PyramidReductionIterator", "        done_event.set()\n\n        check_workers(workers)\n\n\nclass PyramidReductionIterator", ["C03"], []),
 ("visit-wrong-tile", "toasty/pyramid.py", "                    put_to_workers(ready_queue, (pos, tile), workers, done_event)", "                    ready_queue.put((pos, prev_tile if (prev_tile := getattr(self, '_pt', None)) is not None and pos.x % 2 else tile)); self._pt = tile", ["C03"], []),
 ("workers-never-checked", "toasty/par_util.py", "        if code is not None and code != 0:", "        if False:", ["C19"], ["C03"]),
 ("walk-no-idle-check", "toasty/pyramid.py", "                    try:\n                        check_workers(workers)\n                    except Exception:\n                        done_event.set()\n                        raise\n                    continue", "                    continue", ["C19"], ["C01"]),
 ("transform-no-final-check", "toasty/transform.py", "    check_workers(workers)\n", "    pass\n", ["C19"], ["C03"]),
 ("visit-flag-after-timeout", "toasty/pyramid.py", "            args = ready_queue.get(True, timeout=1)\n        except Empty:\n            if finishing:", "            args = ready_queue.get(True, timeout=1)\n        except Empty:\n            if done_event.is_set():", ["C03"], ["C01"]),
 ("transform-flag-after-timeout", "toasty/transform.py", "        except Empty:\n            if finishing:", "        except Empty:\n            if done_event.is_set():", ["C03"], []),
 ("opposite-parity-swap", "toasty/merge.py", "SLICES_OPPOSITE_PARITY = [\n    (slice(256, None), slice(None, 256)),\n    (slice(256, None), slice(256, None)),", "SLICES_OPPOSITE_PARITY = [\n    (slice(256, None), slice(256, None)),\n    (slice(256, None), slice(None, 256)),", ["C02"], ["C01"]),
 ("no-buf-clear", "toasty/merge.py", "        if self._buf is not None:\n            self._buf.clear()", "        if self._buf is not None:\n            pass", ["C02"], ["C01"]),
 ("min-of-max", "toasty/merge.py", "max_value = max(max_values)", "max_value = min(max_values)", ["C14"], ["C02"]),
 ("range-from-merged", "toasty/merge.py", "        self._pio.write_image(pos, merged, min_value=min_value, max_value=max_value)", "        self._pio.write_image(pos, merged)", ["C14"], ["C02"]),
 ("lock-on-format-path", "toasty/pyramid.py", "        p = self.tile_path(pos)\n\n        with SoftFileLock", "        p = self.tile_path(pos, format=format)\n\n        with SoftFileLock", [], ["C10", "C09"]),   # equivalent: different formats are different files
 ("lock-per-instance", "toasty/pyramid.py", "        with SoftFileLock(p + \".lock\"):", "        with SoftFileLock(p + str(id(self) % 7) + \".lock\"):", ["C10"], []),
 ("lock-noop", "toasty/pyramid.py", "        with SoftFileLock(p + \".lock\"):", "        if True:", ["C10", "C09"], []),
 ("read-before-lock", "toasty/pyramid.py", "        with SoftFileLock(p + \".lock\"):\n            img = self.read_image(\n                pos,\n                default=default,\n                masked_mode=masked_mode,\n                format=format or self._default_format,\n            )\n", "        img = self.read_image(\n            pos,\n            default=default,\n            masked_mode=masked_mode,\n            format=format or self._default_format,\n        )\n        with SoftFileLock(p + \".lock\"):\n", ["C10"], []),
 ("write-after-lock", "toasty/pyramid.py", "            yield img\n            self.write_image(pos, img, format=format or self._default_format)", "            yield img\n        self.write_image(pos, img, format=format or self._default_format)", ["C10", "C09"], []),
 ("no-unlink-masked", "toasty/pyramid.py", "            try:\n                os.unlink(p)\n            except (FileNotFoundError, OSError):\n                pass", "            pass", ["C15", "C02"], []),
 ("no-index-swap", "toasty/pipeline/__init__.py", "                filenames[-1] = 'index.wtml'\n                filenames[index_index] = temp", "                pass", ["C18"], []),
 ("rename-before-transfer", "toasty/pipeline/__init__.py", "            print(f'publishing {uniq_id} ...')\n", "            print(f'publishing {uniq_id} ...')\n            os.rename(os.path.join(todo_dir, uniq_id), os.path.join(done_dir, uniq_id)); todo_dir, _td = done_dir, todo_dir\n", ["C18"], []),
 ("put-item-not-atomic", "toasty/pipeline/local_io.py", "            tpath = '%s.%d.part' % (fpath, n)\n\n            try:\n                f = open(tpath, 'xb')", "            tpath = fpath\n\n            try:\n                f = open(tpath, 'wb')", ["C18"], []),
 ("put-item-fixed-temp-name", "toasty/pipeline/local_io.py", "                f = open(tpath, 'xb')", "                f = open(tpath, 'wb')", ["C18"], []),
 ("replace-before-copy", "toasty/pipeline/local_io.py", "        with f:\n            shutil.copyfileobj(source, f)\n\n        os.replace(tpath, fpath)", "        f.close()\n        os.replace(tpath, fpath)\n        with open(fpath, 'r+b') as f:\n            shutil.copyfileobj(source, f)", ["C18"], []),
 ("index-first", "toasty/pipeline/__init__.py", "                temp = filenames[-1]\n                filenames[-1] = 'index.wtml'", "                temp = filenames[0]\n                filenames[0] = 'index.wtml'", ["C18"], []),
 ("refresh-any-file", "toasty/pipeline/cli.py", 'if mgr._pipeio.check_exists(uniq_id, "index.wtml"):', 'if mgr._pipeio.check_exists(uniq_id):', ["C18"], []),
 ("mt-worker-no-flip", "toasty/multi_tan.py", "            continue\n\n        if image.get_parity_sign() != tile_parity_sign:\n            image.flip_parity()", "            continue\n", ["C09"], []),
 ("mt-worker-image-y", "toasty/multi_tan.py", "            if tile_parity_sign == 1:\n                image_y = image.height - (image_y + height)\n                tile_y = 256 - (tile_y + height)\n\n            ix_idx", "            if tile_parity_sign == 1:\n                image_y = image.height - (image_y + height) - (1 if image_y else 0)\n                tile_y = 256 - (tile_y + height)\n\n            ix_idx", ["C09"], []),
 ("mt-crpix-from-first", "toasty/multi_tan.py", "        ref_headers[\"CRPIX1\"] = this_crpix1 + 1 + (mtdesc.crxmin - global_crxmin)", "        ref_headers[\"CRPIX1\"] = this_crpix1 + 1 + (self._descs[0].crxmin - global_crxmin)", ["C09"], []),
 ("reuse-no-restore", "toasty/fits_tiler.py", "                    self._copy_wtml_to_builder()", "                    pass", ["C17"], []),
 ("scheme-template-swapped", "toasty/pyramid.py", "            self._scheme = \"L{1}X{2}Y{3}\"", "            self._scheme = \"L{1}X{3}Y{2}\"", ["C17"], []),
 ("lyyx-swapped", "toasty/pyramid.py", "            d, \"{}_{}.{}\".format(iy, ix, format or self._default_format)", "            d, \"{}_{}.{}\".format(ix, iy, format or self._default_format)", ["C17"], []),
 ("tile-levels-off", "toasty/study.py", "        imgset.tile_levels = self._tile_levels\n", "        imgset.tile_levels = self._tile_levels + 1\n", ["C17"], []),
 ("filetype-no-dot", "toasty/builder.py", "        self.imgset.file_type = \".\" + pio.get_default_format()\n        self.imgset.url = pio.get_path_scheme() + self.imgset.file_type\n\n        self.place = Place()", "        self.imgset.file_type = \".\" + pio.get_default_format()\n        self.imgset.url = pio.get_path_scheme() + \".png\"\n\n        self.place = Place()", ["C17"], []),
 ("rgba-valid-threshold", "toasty/image.py", "            valid = sub_i[..., 3] != 0\n            valid = np.broadcast_to(valid[..., None], sub_i.shape)\n            np.putmask(sub_b, valid, sub_i)", "            valid = sub_i[..., 3] > 2\n            valid = np.broadcast_to(valid[..., None], sub_i.shape)\n            np.putmask(sub_b, valid, sub_i)", ["C15"], []),
 ("int-update-minimum", "toasty/image.py", "            np.maximum(sub_b, sub_i, out=sub_b)", "            np.copyto(sub_b, sub_i)", ["C15"], []),
 ("fill-no-clear-float", "toasty/image.py", "            b.fill(np.nan)\n            b[by_idx, bx_idx] = i[iy_idx, ix_idx]", "            b[by_idx, bx_idx] = i[iy_idx, ix_idx]", ["C15"], []),
 ("masked-default-not-cleared", "toasty/pyramid.py", "                buf = masked_mode.make_maskable_buffer(256, 256)\n                buf.clear()", "                buf = masked_mode.make_maskable_buffer(256, 256)\n                buf.asarray().fill(0)", ["C15"], []),
 ("completely-masked-any", "toasty/image.py", "            return np.all(i[..., 3] == 0)", "            return np.all(i[..., 3] < 2)", ["C15"], []),
 ("lxy-swapped", "toasty/pyramid.py", "            \"L{}X{}Y{}.{}\".format(level, ix, iy, format or self._default_format),", "            \"L{}X{}Y{}.{}\".format(level, iy, ix, format or self._default_format),", ["C17"], ["C02"]),
 ("sampler-flip-always", "toasty/toast.py", "        if self._invert_into_tiles:\n            sampled_data = sampled_data[::-1]", "        if True:\n            sampled_data = sampled_data[::-1]", ["C06"], []),
 ("sampler-level0-quadrants-swapped", "toasty/toast.py", "        y_idx = slice(128 * tile.pos.y, 128 * (tile.pos.y + 1))\n        x_idx = slice(128 * tile.pos.x, 128 * (tile.pos.x + 1))", "        y_idx = slice(128 * tile.pos.x, 128 * (tile.pos.x + 1))\n        x_idx = slice(128 * tile.pos.y, 128 * (tile.pos.y + 1))", ["C06"], []),
 ("sampler-update-clobbers", "toasty/toast.py", "        if self._clobber:\n            self._pio.write_image", "        if True:\n            self._pio.write_image", ["C06"], []),
 ("sampler-wrong-tile-coords", "toasty/toast.py", "            lon, lat = toast_tile_get_coords(tile)\n        sampled_data", "            lon, lat = toast_tile_get_coords(tile)\n            lon, lat = lon.T, lat.T\n        sampled_data", ["C06"], []),
 ("sampler-no-flip", "toasty/toast.py", "sampled_data = sampled_data[::-1]", "sampled_data = sampled_data", ["C06"], ["C03"]),
]


def run(cmd, env, timeout):
    t0 = time.time()
    try:
        p = subprocess.run(cmd, env=env, capture_output=True, text=True, timeout=timeout, cwd=VERIF)
        return p.returncode, p.stdout + p.stderr, time.time() - t0
    except subprocess.TimeoutExpired as e:
        return 99, "TIMEOUT", time.time() - t0


def main():
    args = [a for a in sys.argv[1:] if not a.startswith("--")]
    opts = dict(a[2:].split("=", 1) if "=" in a else (a[2:], "1") for a in sys.argv[1:] if a.startswith("--"))
    only_props = opts.get("props", "").split(",") if opts.get("props") else None
    have = {f[:-3].upper() for f in os.listdir(os.path.join(VERIF, "toastysim", "props")) if f[0] == "c" and f[1:3].isdigit()}
    results = []
    for name, path, old, new, flag, silent in MUTANTS:
        if args and not any(a in name for a in args):
            continue
        d = "/dev/shm/mutant-%s-%d" % (name, os.getpid())
        shutil.rmtree(d, ignore_errors=True)
        os.makedirs(d)
        try:
            shutil.copytree(os.path.join(REPO, "toasty"), os.path.join(d, "toasty"), ignore=shutil.ignore_patterns("__pycache__"))
            fp = os.path.join(d, path)
            src = open(fp).read()
            if src.count(old) != 1:
                print("MUTANT %-28s SKIPPED: pattern occurs %d times in %s" % (name, src.count(old), path))
                results.append((name, "skipped", {}))
                continue
            open(fp, "w").write(src.replace(old, new))
            env = dict(os.environ, TOASTY_SRC=d, VERIF_OUT=os.path.join(d, "out"))
            row = {}
            for prop in flag + silent:
                if prop not in have or (only_props and prop not in only_props):
                    continue
                cmd = ["./check", prop, "--tier", "quick"]
                if "runs" in opts:
                    cmd += ["--runs", opts["runs"]]
                rc, out, dt = run(cmd, env, 900)
                want = 1 if prop in flag else 0
                ok = (rc == want)
                row[prop] = (rc, want, ok, round(dt, 1))
                tail = [l for l in out.splitlines() if l.startswith(("violation", "VIOLATION", "HARNESS", "OK", "KNOWN"))][:3]
                print("MUTANT %-28s %s rc=%d want=%d %s  (%.0fs) %s" % (name, prop, rc, want, "ok" if ok else "** MISMATCH **", dt, tail[:1]))
                sys.stdout.flush()
            results.append((name, "ran", row))
        finally:
            shutil.rmtree(d, ignore_errors=True)
    bad = [(n, p, r) for n, st, row in results for p, r in row.items() if not r[2]]
    print("\n%d mutants, %d mismatches" % (len(results), len(bad)))
    for b in bad:
        print("  mismatch:", b)
    return 1 if bad else 0


sys.exit(main())
