#!/usr/bin/env python3
"""Differential smoke test of the multiprocessing model (not a deciding step):
runs a handful of micro-scenarios and toasty stages once under REAL
multiprocessing and under the simulator (a few seeds) and compares the
observable results.  Writes reports/mp_model_diff.json."""
import json
import os
import random
import sys
import tempfile
import time

VERIF = os.path.dirname(os.path.dirname(os.path.abspath(__file__)))
sys.path.insert(0, VERIF)
import multiprocessing as real_mp  # noqa: E402
from queue import Empty, Full  # noqa: E402

REAL = {"Queue": real_mp.Queue, "Event": real_mp.Event, "Process": real_mp.Process}

from toastysim import engine  # noqa: E402
engine.setup_process()
from toastysim.kernel import Choices, Sim  # noqa: E402
import multiprocessing as mp  # noqa: E402  (patched dispatchers: sim objects inside a Sim task, real ones outside)


def child_put(q, items):
    for i in items:
        q.put(i)


def child_get_n(q, n, out):
    for _ in range(n):
        out.put(q.get(True, 5))


def child_raise():
    raise RuntimeError("boom")


def child_ok():
    pass


def sc_fifo():
    q = mp.Queue()
    for i in range(5):
        q.put(i)
    out = mp.Queue()
    p = mp.Process(target=child_get_n, args=(q, 5, out))
    p.start()
    got = [out.get(True, 5) for _ in range(5)]
    p.join()
    return got, p.exitcode


def sc_empty_timeout():
    q = mp.Queue()
    try:
        q.get(True, timeout=0.05)
        return "item"
    except Empty:
        return "Empty"


def sc_closed():
    q = mp.Queue()
    q.put(1)
    q.close()
    q.join_thread()
    r = []
    for f in (lambda: q.put(2), lambda: q.get(True, 0.01)):
        try:
            f()
            r.append("ok")
        except ValueError:
            r.append("ValueError")
        except Empty:
            r.append("Empty")
    return r


def sc_exitcodes():
    a = mp.Process(target=child_raise)
    b = mp.Process(target=child_ok)
    a.start(); b.start(); a.join(); b.join()
    return a.exitcode, b.exitcode


def sc_full():
    q = mp.Queue(maxsize=2)
    q.put(1); q.put(2)
    try:
        q.put(3, False)
        r = "ok"
    except Full:
        r = "Full"
    try:
        q.put(3, True, 0.05)
        r2 = "ok"
    except Full:
        r2 = "Full"
    return r, r2, q.qsize()


def sc_event():
    e = mp.Event()
    a = e.is_set()
    w = e.wait(0.02)
    e.set()
    return a, w, e.is_set(), e.wait(0.02)


def sc_child_flush_before_exit():
    q = mp.Queue()
    p = mp.Process(target=child_put, args=(q, list(range(20))))
    p.start()
    p.join()
    got = [q.get(True, 5) for _ in range(20)]
    return got, p.exitcode


def sc_exitcode_none_while_running():
    q = mp.Queue()
    out = mp.Queue()
    p = mp.Process(target=child_get_n, args=(q, 1, out))
    p.start()
    before = p.exitcode
    alive = p.is_alive()
    q.put("x")
    r = out.get(True, 5)
    p.join()
    return before, alive, r, p.exitcode


SCENARIOS = [sc_fifo, sc_empty_timeout, sc_closed, sc_exitcodes, sc_full, sc_event, sc_child_flush_before_exit, sc_exitcode_none_while_running]


def toasty_stage_outcomes(parallel):
    """Real toasty stages: sets of processed items recorded through files."""
    from toasty.pyramid import Pyramid
    d = tempfile.mkdtemp(dir="/dev/shm")

    def wcb(pos):
        open(os.path.join(d, "w-%d-%d-%d" % tuple(pos)), "w").close()

    def vcb(pos, tile):
        open(os.path.join(d, "v-%d-%d-%d" % tuple(pos)), "w").close()

    Pyramid.new_generic(3).walk(wcb, parallel=parallel)
    Pyramid.new_toast(2).visit_leaves(vcb, parallel=parallel)
    rej = {(1, 1, 0), (2, 0, 3)}
    Pyramid.new_toast_filtered(3, lambda t: tuple(t.pos) not in rej).walk(wcb, parallel=parallel)
    names = sorted(os.listdir(d))
    import shutil
    shutil.rmtree(d)
    return names


def under_sim(fn, seed):
    ch = Choices(rng=random.Random(seed))
    sim = Sim(ch, step_cap=200000, p_early=0.0)   # functional comparison: no stalled-peer timeouts
    box = {}

    def main():
        box["r"] = fn()

    t = sim.run(main)
    if sim.status != "returned" or t.exc is not None:
        return "SIM-FAILED %s %r" % (sim.status, t.exc)
    return box["r"]


def main():
    report = {"scenarios": [], "at": time.strftime("%Y-%m-%dT%H:%M:%S")}
    bad = 0
    for sc in SCENARIOS:
        real = sc()
        sims = [under_sim(sc, s) for s in range(6)]
        ok = all(json.dumps(x, default=str) == json.dumps(real, default=str) for x in sims)
        report["scenarios"].append({"name": sc.__name__, "real": repr(real), "sim_agrees_on_seeds": 6 if ok else [repr(x) for x in sims]})
        print("%-34s real=%r  sim %s" % (sc.__name__, real, "agrees (6 seeds)" if ok else "DISAGREES: %r" % (sims,)))
        bad += 0 if ok else 1
    real = toasty_stage_outcomes(3)
    sims = [under_sim(lambda: toasty_stage_outcomes(3), s) for s in range(4)]
    serial = toasty_stage_outcomes(1)
    ok = all(x == real for x in sims) and serial == real
    print("toasty walk/visit outcomes: %d items; real-mp == serial == sim(4 seeds): %s" % (len(real), ok))
    report["scenarios"].append({"name": "toasty_stage_outcomes", "items": len(real), "agree": ok})
    bad += 0 if ok else 1
    report["disagreements"] = bad
    with open(os.path.join(VERIF, "reports", "mp_model_diff.json"), "w") as f:
        json.dump(report, f, indent=1)
    return 1 if bad else 0


if __name__ == "__main__":
    sys.exit(main())
