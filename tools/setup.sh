#!/bin/sh
# Offline setup: make sure /venv can run the checks; create output directories.
set -e
cd "$(dirname "$0")/.."
mkdir -p evidence replays
PY="${TOASTY_PYTHON:-/venv/bin/python}"
if ! "$PY" -c "import hypothesis" 2>/dev/null; then
    /venv/bin/pip install --no-index --find-links /opt/veriftools/wheels hypothesis >/dev/null
fi
# the compiled TOAST helper is git-ignored in /repo; rebuild it from the generated C file if it is missing
if ! "$PY" -c "import toasty._libtoasty" 2>/dev/null; then
    if [ -f /repo/toasty/_libtoasty.c ]; then
        INC=$("$PY" -c "import sysconfig, numpy; print('-I'+sysconfig.get_paths()['include'], '-I'+numpy.get_include())")
        EXT=$("$PY" -c "import sysconfig; print(sysconfig.get_config_var('EXT_SUFFIX'))")
        gcc -O2 -shared -fPIC $INC /repo/toasty/_libtoasty.c -o "/repo/toasty/_libtoasty$EXT" -lm
    fi
fi
"$PY" -c "import toasty, toasty._libtoasty, filelock, numpy, astropy; print('setup ok: toasty from', toasty.__file__)"
