#!/bin/sh
# Run every thorough tier once (not a registered check); output under $VERIF_OUT.
export VERIF_OUT="${VERIF_OUT:-/dev/shm/toastysim-thorough}"
mkdir -p "$VERIF_OUT"
cd "$(dirname "$0")/.."
for p in ${1:-C01 C03 C19 C10 C18 C15 C02 C14 C09 C06 C17}; do
  echo "=== $p thorough $(date +%T)"
  VERIF_SEED=${VERIF_SEED:-7} ./check "$p" --tier thorough ${2:+--max-seconds $2} 2>&1 | tail -12
  echo "rc=$?"
done
