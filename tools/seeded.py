#!/usr/bin/env python3
"""Evaluate an independently written breaking change (not a registered check).

usage: tools/seeded.py <name> <worktree-with-change-applied> <outdir-with-patch.diff+demo.py> <property> [checks to run ...]

1. confirms the demo: fails with the change, passes on the same tree with the patch reverted (a pristine copy);
2. runs the existing test suite on the changed tree (unless --skip-tests);
3. runs the listed quick checks against the changed tree (TOASTY_SRC, VERIF_OUT scratch) and the property's own check;
4. stores patch.diff, the demo, notes and meta.json under /verif/seeded/<name>/.
"""
import json
import os
import shutil
import subprocess
import sys
import time

VERIF = os.path.dirname(os.path.dirname(os.path.abspath(__file__)))


def sh(cmd, cwd=None, env=None, timeout=1800):
    t0 = time.time()
    try:
        p = subprocess.run(cmd, cwd=cwd, env=env, shell=isinstance(cmd, str), capture_output=True, text=True, timeout=timeout)
        return p.returncode, p.stdout + p.stderr, round(time.time() - t0, 1)
    except subprocess.TimeoutExpired:
        return 124, "TIMEOUT after %ds" % timeout, round(time.time() - t0, 1)


def main():
    args = [a for a in sys.argv[1:] if not a.startswith("--")]
    flags = {a for a in sys.argv[1:] if a.startswith("--")}
    name, wt, outdir, prop = args[:4]
    checks = args[4:] or [prop]
    dest = os.path.join(VERIF, "seeded", name)
    os.makedirs(dest, exist_ok=True)
    meta = {"name": name, "breaks_property": prop, "written_by": "independent sub-agent that saw only the property text and its own scratch worktree",
            "evaluated_at": time.strftime("%Y-%m-%dT%H:%M:%S")}
    patch = os.path.join(outdir, "patch.diff")
    # a pristine copy of the same commit for the 'without' run
    pristine = "/dev/shm/seeded-pristine-%s" % name
    shutil.rmtree(pristine, ignore_errors=True)
    shutil.copytree(wt, pristine, ignore=shutil.ignore_patterns(".git", "__pycache__"))
    rc, out, _ = sh("patch -p1 -R --no-backup-if-mismatch < %s" % patch, cwd=pristine)
    if rc != 0:
        print("could not revert patch in pristine copy:", out[-500:])
        return 2
    demo = os.path.join(outdir, "demo.py")
    env = dict(os.environ)
    rc1, out1, t1 = sh(["/venv/bin/python", demo], cwd=wt, env=dict(env, PYTHONPATH=wt), timeout=600)
    rc0, out0, t0 = sh(["/venv/bin/python", demo], cwd=pristine, env=dict(env, PYTHONPATH=pristine), timeout=600)
    meta["demo"] = {"with_change": {"rc": rc1, "tail": out1[-400:], "s": t1}, "without_change": {"rc": rc0, "tail": out0[-400:], "s": t0}}
    print("demo with change: rc=%d (%.0fs)   without: rc=%d (%.0fs)" % (rc1, t1, rc0, t0))
    meta["demo_confirms"] = (rc1 != 0 and rc0 == 0)
    if "--skip-tests" not in flags:
        rc, out, t = sh("/venv/bin/python -m pytest -q -p no:cacheprovider --timeout=900 toasty/tests 2>&1 | tail -6", cwd=wt, env=dict(env, PYTHONPATH=wt), timeout=1500)
        summary = [l for l in out.splitlines() if " passed" in l or " failed" in l][-1:] or [out[-200:]]
        failed = [l for l in out.splitlines() if l.startswith("FAILED")]
        meta["test_suite_with_change"] = {"summary": summary[0], "failed": failed, "s": t}
        print("test suite with change:", summary[0])
    results = {}
    for c in checks:
        scratch = "/dev/shm/seeded-out-%s" % name
        rc, out, t = sh(["./check", c, "--tier", "quick"], cwd=VERIF, env=dict(env, TOASTY_SRC=wt, VERIF_OUT=scratch), timeout=1500)
        lines = [l for l in out.splitlines() if l.startswith(("violation", "VIOLATION", "OK", "HARNESS", "KNOWN", "  detail"))]
        results[c] = {"rc": rc, "s": t, "lines": [l[:400] for l in lines[:6]]}
        print("check %s against the change: rc=%d (%.0fs) %s" % (c, rc, t, lines[:1]))
        shutil.rmtree(scratch, ignore_errors=True)
    meta["checks_run_against_change"] = results
    meta["caught_by"] = sorted(c for c, r in results.items() if r["rc"] == 1)
    shutil.copy(patch, os.path.join(dest, "patch.diff"))
    shutil.copy(demo, os.path.join(dest, "demo.py"))
    if os.path.exists(os.path.join(outdir, "notes.md")):
        shutil.copy(os.path.join(outdir, "notes.md"), os.path.join(dest, "notes.md"))
    old = {}
    mp = os.path.join(dest, "meta.json")
    if os.path.exists(mp):
        old = json.load(open(mp))
    for k in ("needs_to_manifest", "strengthening", "history"):
        if k in old:
            meta[k] = old[k]
    json.dump(meta, open(mp, "w"), indent=1)
    shutil.rmtree(pristine, ignore_errors=True)
    return 0


sys.exit(main())
