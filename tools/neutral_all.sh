#!/bin/sh
# Re-run the quick checks against every stored behaviour-preserving refactoring (not a registered check).
# usage: tools/neutral_all.sh ["C01 C03 ..."]   (default: all claimed checks); trees live under /dev/shm and are removed.
cd "$(dirname "$0")/.."
CHECKS="${1:-C01 C02 C03 C06 C09 C10 C14 C15 C17 C18 C19}"
for d in seeded/neutral-*; do
  name=$(basename "$d" | sed 's/^neutral-//')
  tree=/dev/shm/neutral-tree-$$
  rm -rf "$tree"; cp -r /repo "$tree"; rm -rf "$tree/.git"
  if (cd "$tree" && patch -p1 -s --no-backup-if-mismatch < "$OLDPWD/$d/patch.diff" >/dev/null 2>&1); then
    python3 tools/neutral.py "$name" "$tree" $CHECKS | grep -v "rc=0" | head -5
    echo "neutral $name: done"
  else
    echo "neutral $name: patch does not apply to /repo HEAD (written against an earlier base)"
  fi
  rm -rf "$tree"
done
