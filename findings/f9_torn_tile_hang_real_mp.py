"""F9 (C19) with REAL multiprocessing: one storage error makes parallel multi-image tiling wait for ever.

A worker of MultiTanProcessor.tile hits ENOSPC half-way through writing a tile (injected ONCE, in whichever process
writes that tile first: Image.save leaves the first half of the file behind and raises). That worker exits with a
traceback. The other worker later updates the same tile, cannot read the torn file and exits too. The producer has
by then put all its items (the queue's bounded buffer took the last ones), so it sits in `queue.join_thread()`:
the feeder thread is blocked writing a large pickled image into a pipe nobody reads any more. Before the repair
(`par_util.finish_queue`) `tile()` never returned; with it, it raises "parallel processing failed".

Run:  /venv/bin/python findings/f9_torn_tile_hang_real_mp.py [path-of-a-toasty-tree]     (prints HANG or RAISED)
"""
import multiprocessing as mp
import os
import sys
import tempfile
import time

if len(sys.argv) > 1:
    sys.path.insert(0, sys.argv[1])

import numpy as np
from astropy.io import fits
from astropy.wcs import WCS


def make_inputs(d, n=6, size=420):
    paths = []
    for k in range(n):
        w = WCS(naxis=2)
        w.wcs.ctype = ["RA---TAN", "DEC--TAN"]
        w.wcs.crval = [10.0, 20.0]
        w.wcs.crpix = [200.5 - 3 * k, 200.5]            # all images overlap almost completely: the same tiles
        w.wcs.cd = [[-0.001, 0.0], [0.0, 0.001]]
        data = np.full((size, size), float(k + 1), dtype=np.float64)      # 1.4 MB each: far more than a pipe holds
        p = os.path.join(d, "in%d.fits" % k)
        fits.PrimaryHDU(data=data, header=w.to_header()).writeto(p)
        paths.append(p)
    return paths


def job(paths, out, flag):
    import toasty
    from toasty import collection, image
    from toasty.builder import Builder
    from toasty.multi_tan import MultiTanProcessor
    from toasty.pyramid import PyramidIO

    orig_save = image.Image.save

    def save(self, path_or_stream, *a, **kw):
        if isinstance(path_or_stream, str) and path_or_stream.endswith(".fits"):
            try:
                os.close(os.open(flag, os.O_CREAT | os.O_EXCL | os.O_WRONLY))      # once, in whichever process comes first
            except FileExistsError:
                pass
            else:
                tmp = path_or_stream + ".whole"
                orig_save(self, tmp, *a, **kw)
                with open(tmp, "rb") as f:
                    blob = f.read()
                os.unlink(tmp)
                with open(path_or_stream, "wb") as f:
                    f.write(blob[: len(blob) // 2])
                raise OSError(28, "No space left on device (injected, half of %s written)" % os.path.basename(path_or_stream))
        return orig_save(self, path_or_stream, *a, **kw)

    image.Image.save = save          # inherited by the forked workers
    coll = collection.load(paths)
    pio = PyramidIO(out, default_format="fits")
    b = Builder(pio)
    proc = MultiTanProcessor(coll)
    proc.compute_global_pixelization(b)
    try:
        proc.tile(pio, parallel=2)
    except Exception as e:
        print("tile() raised:", e)
        sys.stdout.flush()
        os._exit(3)
    print("tile() returned normally")
    sys.stdout.flush()
    os._exit(0)


def main():
    import toasty
    print("toasty from", os.path.dirname(toasty.__file__))
    with tempfile.TemporaryDirectory() as d:
        paths = make_inputs(d)
        p = mp.get_context("fork").Process(target=job, args=(paths, os.path.join(d, "out"), os.path.join(d, "flag")))
        p.start()
        p.join(40)
        if p.is_alive():
            print("HANG: tile(parallel=2) is still waiting 40 s after one injected write error")
            # the blocked producer and its (dead) workers
            import signal
            os.kill(p.pid, signal.SIGKILL)
            p.join()
            return 1
        print("RAISED" if p.exitcode == 3 else "exit code %s" % p.exitcode)
        return 0


if __name__ == "__main__":
    sys.exit(main())
