"""F7 (C03) with REAL multiprocessing: the shutdown race of the fan-out workers.

A worker exits when its `get(timeout=1)` timed out AND the done flag is set, but
it reads the flag *after* the get returned.  If the worker is descheduled
between the two (here: a 1.5 s delay added to Event.is_set - a pure timing
change), and the producer enqueues its items, flushes and sets the flag in that
window, every worker exits and the items already in the pipe are never
processed: visit_leaves returns normally having visited nothing.

Run:  /venv/bin/python findings/f7_shutdown_race_real_mp.py   (prints LOST or OK)
"""
import multiprocessing as mp
import os
import sys
import tempfile
import time

from toasty.pyramid import Pyramid

_RealEvent = mp.Event


class SlowEvent(object):
    def __init__(self):
        self._ev = _RealEvent()

    def is_set(self):
        time.sleep(1.5)          # "the worker process was descheduled here"
        return self._ev.is_set()

    def set(self):
        self._ev.set()


mp.Event = SlowEvent
outdir = tempfile.mkdtemp()


def callback(pos, tile):
    open(os.path.join(outdir, "visited-%d-%d-%d" % (pos.n, pos.x, pos.y)), "w").close()


first = [True]


def slow_filter(tile):
    if first[0]:
        first[0] = False
        time.sleep(1.2)          # a tile filter that takes a while the first time
    return True


pyr = Pyramid.new_toast_filtered(1, slow_filter)
pyr.count_leaf_tiles = lambda: 4   # skip the counting pass so that the delay falls into the dispatch loop
pyr.visit_leaves(callback, parallel=2)
n = len(os.listdir(outdir))
print("visit_leaves returned; leaves visited: %d of 4 -> %s" % (n, "LOST" if n < 4 else "OK"))
sys.exit(1 if n < 4 else 0)
